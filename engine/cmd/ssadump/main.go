package main

import (
	"fmt"
	"os"
	"strings"

	"golang.org/x/tools/go/packages"
	"golang.org/x/tools/go/ssa"
	"golang.org/x/tools/go/ssa/ssautil"
)

func main() {
	cfg := &packages.Config{Mode: packages.LoadAllSyntax, Dir: "/repo"}
	pkgs, err := packages.Load(cfg, "./martian/core", "./martian/syntax", "./martian/util", "./cmd/mrjob", "./cmd/mrp")
	if err != nil {
		panic(err)
	}
	prog, spkgs := ssautil.AllPackages(pkgs, ssa.InstantiateGenerics)
	prog.Build()
	want := os.Args[1:]
	for _, p := range spkgs {
		if p == nil {
			continue
		}
		for fn := range ssautil.AllFunctions(prog) {
			if fn.Pkg != p {
				continue
			}
			name := fn.RelString(nil)
			for _, w := range want {
				if strings.HasSuffix(name, w) {
					fmt.Println("=====", name)
					fn.WriteTo(os.Stdout)
				}
			}
		}
	}
}
