package main

// SMT-LIB terms with light constant folding.

import (
	"fmt"
	"math/big"
	"sort"
	"strings"
)

type SortKind int

const (
	SInt SortKind = iota
	SBool
	SReal
	SString
	SArray
)

type Sort struct {
	K         SortKind
	Idx, Elem *Sort
}

var (
	IntS    = &Sort{K: SInt}
	BoolS   = &Sort{K: SBool}
	RealS   = &Sort{K: SReal}
	StringS = &Sort{K: SString}
)

var arraySorts = map[string]*Sort{}

func ArrayS(idx, elem *Sort) *Sort {
	k := idx.String() + ">" + elem.String()
	if s, ok := arraySorts[k]; ok {
		return s
	}
	s := &Sort{K: SArray, Idx: idx, Elem: elem}
	arraySorts[k] = s
	return s
}

func (s *Sort) String() string {
	switch s.K {
	case SInt:
		return "Int"
	case SBool:
		return "Bool"
	case SReal:
		return "Real"
	case SString:
		return "String"
	case SArray:
		return "(Array " + s.Idx.String() + " " + s.Elem.String() + ")"
	}
	return "?"
}

func sameSort(a, b *Sort) bool { return a.String() == b.String() }

type Bound struct {
	Name string
	S    *Sort
}

type Term struct {
	Op   string // "" for atoms (variables / literals), else SMT operator or function symbol
	Args []*Term
	S    *Sort
	Name string   // atom text (symbol)
	I    *big.Int // integer literal value
	BLit int      // 1 true, 2 false
	SLit *string  // string literal (Go bytes)
	Q    []Bound  // for forall/exists
	Pat  []*Term  // optional patterns for quantifiers
}

func IntLit(n int64) *Term { return &Term{S: IntS, I: big.NewInt(n)} }
func BigLit(n *big.Int) *Term {
	return &Term{S: IntS, I: new(big.Int).Set(n)}
}

var True = &Term{S: BoolS, BLit: 1}
var False = &Term{S: BoolS, BLit: 2}

func BoolLit(b bool) *Term {
	if b {
		return True
	}
	return False
}
func StrLit(s string) *Term { return &Term{S: StringS, SLit: &s} }

func Var(name string, s *Sort) *Term { return &Term{Name: name, S: s} }

func App(op string, s *Sort, args ...*Term) *Term {
	for i, a := range args {
		if a == nil {
			panic(fmt.Sprintf("nil arg %d to %s", i, op))
		}
	}
	return &Term{Op: op, S: s, Args: args}
}

func (t *Term) IsLit() bool   { return t.Op == "" && (t.I != nil || t.BLit != 0 || t.SLit != nil) }
func (t *Term) IsAtom() bool  { return t.Op == "" }
func (t *Term) IsTrue() bool  { return t.Op == "" && t.BLit == 1 }
func (t *Term) IsFalse() bool { return t.Op == "" && t.BLit == 2 }
func (t *Term) IntVal() (int64, bool) {
	if t.Op == "" && t.I != nil && t.I.IsInt64() {
		return t.I.Int64(), true
	}
	return 0, false
}

func termEq(a, b *Term) bool {
	if a == b {
		return true
	}
	if a.Op != b.Op || len(a.Args) != len(b.Args) || len(a.Q) != 0 || len(b.Q) != 0 {
		return false
	}
	if a.Op == "" {
		if a.I != nil || b.I != nil {
			return a.I != nil && b.I != nil && a.I.Cmp(b.I) == 0
		}
		if a.BLit != 0 || b.BLit != 0 {
			return a.BLit == b.BLit
		}
		if a.SLit != nil || b.SLit != nil {
			return a.SLit != nil && b.SLit != nil && *a.SLit == *b.SLit
		}
		return a.Name == b.Name
	}
	for i := range a.Args {
		if !termEq(a.Args[i], b.Args[i]) {
			return false
		}
	}
	return true
}

func And(ts ...*Term) *Term {
	var out []*Term
	for _, t := range ts {
		if t == nil || t.IsTrue() {
			continue
		}
		if t.IsFalse() {
			return False
		}
		if t.Op == "and" {
			out = append(out, t.Args...)
		} else {
			out = append(out, t)
		}
	}
	switch len(out) {
	case 0:
		return True
	case 1:
		return out[0]
	}
	return App("and", BoolS, out...)
}

func Or(ts ...*Term) *Term {
	var out []*Term
	for _, t := range ts {
		if t == nil || t.IsFalse() {
			continue
		}
		if t.IsTrue() {
			return True
		}
		if t.Op == "or" {
			out = append(out, t.Args...)
		} else {
			out = append(out, t)
		}
	}
	switch len(out) {
	case 0:
		return False
	case 1:
		return out[0]
	}
	return App("or", BoolS, out...)
}

func Not(t *Term) *Term {
	if t.IsTrue() {
		return False
	}
	if t.IsFalse() {
		return True
	}
	if t.Op == "not" {
		return t.Args[0]
	}
	return App("not", BoolS, t)
}

func Implies(a, b *Term) *Term {
	if a.IsTrue() {
		return b
	}
	if a.IsFalse() || b.IsTrue() {
		return True
	}
	if b.IsFalse() {
		return Not(a)
	}
	return App("=>", BoolS, a, b)
}

func Ite(c, a, b *Term) *Term {
	if c.IsTrue() {
		return a
	}
	if c.IsFalse() {
		return b
	}
	if termEq(a, b) {
		return a
	}
	if a.S.K == SBool {
		if a.IsTrue() && b.IsFalse() {
			return c
		}
		if a.IsFalse() && b.IsTrue() {
			return Not(c)
		}
	}
	return App("ite", a.S, c, a, b)
}

func Eq(a, b *Term) *Term {
	if termEq(a, b) {
		return True
	}
	if a.IsLit() && b.IsLit() {
		return False // distinct literals (termEq failed)
	}
	if a.S.K == SBool {
		if b.IsTrue() {
			return a
		}
		if b.IsFalse() {
			return Not(a)
		}
		if a.IsTrue() {
			return b
		}
		if a.IsFalse() {
			return Not(b)
		}
	}
	if a.S.K != b.S.K {
		panic(fmt.Sprintf("Eq sort mismatch: %s : %s vs %s : %s", a, a.S, b, b.S))
	}
	return App("=", BoolS, a, b)
}

func Neq(a, b *Term) *Term { return Not(Eq(a, b)) }

func arith2(op string, a, b *Term, f func(x, y *big.Int) *big.Int) *Term {
	if a.S.K == SReal || b.S.K == SReal {
		return App(op, RealS, toReal(a), toReal(b))
	}
	if a.I != nil && b.I != nil && a.Op == "" && b.Op == "" {
		return BigLit(f(a.I, b.I))
	}
	return App(op, IntS, a, b)
}

func toReal(t *Term) *Term {
	if t.S.K == SReal {
		return t
	}
	if t.Op == "" && t.I != nil {
		return &Term{S: RealS, Name: realLitText(t.I)}
	}
	return App("to_real", RealS, t)
}

func realLitText(i *big.Int) string {
	if i.Sign() < 0 {
		return "(- " + new(big.Int).Neg(i).String() + ".0)"
	}
	return i.String() + ".0"
}

func isZero(t *Term) bool { return t.Op == "" && t.I != nil && t.I.Sign() == 0 }

func Add(a, b *Term) *Term {
	if isZero(a) {
		return b
	}
	if isZero(b) {
		return a
	}
	// (x + c1) + c2
	if b.Op == "" && b.I != nil && a.Op == "+" && len(a.Args) == 2 && a.Args[1].Op == "" && a.Args[1].I != nil {
		return Add(a.Args[0], BigLit(new(big.Int).Add(a.Args[1].I, b.I)))
	}
	return arith2("+", a, b, func(x, y *big.Int) *big.Int { return new(big.Int).Add(x, y) })
}
func Sub(a, b *Term) *Term {
	if isZero(b) {
		return a
	}
	if termEq(a, b) && a.S.K == SInt {
		return IntLit(0)
	}
	if b.Op == "" && b.I != nil && a.S.K == SInt {
		return Add(a, BigLit(new(big.Int).Neg(b.I)))
	}
	return arith2("-", a, b, func(x, y *big.Int) *big.Int { return new(big.Int).Sub(x, y) })
}
func Mul(a, b *Term) *Term {
	return arith2("*", a, b, func(x, y *big.Int) *big.Int { return new(big.Int).Mul(x, y) })
}
func Neg(a *Term) *Term {
	if a.Op == "" && a.I != nil {
		return BigLit(new(big.Int).Neg(a.I))
	}
	return App("-", a.S, a)
}

// Euclidean div/mod as in SMT-LIB.
func Div(a, b *Term) *Term {
	if a.Op == "" && b.Op == "" && a.I != nil && b.I != nil && b.I.Sign() != 0 {
		q, _ := new(big.Int).DivMod(a.I, b.I, new(big.Int))
		return BigLit(q)
	}
	return App("div", IntS, a, b)
}
func Mod(a, b *Term) *Term {
	if a.Op == "" && b.Op == "" && a.I != nil && b.I != nil && b.I.Sign() != 0 {
		_, m := new(big.Int).DivMod(a.I, b.I, new(big.Int))
		return BigLit(m)
	}
	return App("mod", IntS, a, b)
}

func cmp(op string, a, b *Term, f func(int) bool) *Term {
	if a.S.K == SReal || b.S.K == SReal {
		return App(op, BoolS, toReal(a), toReal(b))
	}
	if a.Op == "" && b.Op == "" && a.I != nil && b.I != nil {
		return BoolLit(f(a.I.Cmp(b.I)))
	}
	return App(op, BoolS, a, b)
}
func Lt(a, b *Term) *Term { return cmp("<", a, b, func(c int) bool { return c < 0 }) }
func Le(a, b *Term) *Term { return cmp("<=", a, b, func(c int) bool { return c <= 0 }) }
func Gt(a, b *Term) *Term { return Lt(b, a) }
func Ge(a, b *Term) *Term { return Le(b, a) }

func Select(arr, idx *Term) *Term {
	if arr.S.K != SArray {
		panic("select on non-array " + arr.String())
	}
	// read-over-write with syntactically equal / distinct literal index
	for arr.Op == "store" {
		if termEq(arr.Args[1], idx) {
			return arr.Args[2]
		}
		if arr.Args[1].IsLit() && idx.IsLit() {
			arr = arr.Args[0]
			continue
		}
		// x + c1 vs x + c2
		if d, ok := constDiff(arr.Args[1], idx); ok && d != 0 {
			arr = arr.Args[0]
			continue
		}
		break
	}
	return App("select", arr.S.Elem, arr, idx)
}

// constDiff returns a-b when both are of the form x+c with the same x.
func constDiff(a, b *Term) (int64, bool) {
	ab, ac := splitConst(a)
	bb, bc := splitConst(b)
	if ab == nil && bb == nil {
		return ac - bc, true
	}
	if ab != nil && bb != nil && termEq(ab, bb) {
		return ac - bc, true
	}
	return 0, false
}

func splitConst(a *Term) (*Term, int64) {
	if v, ok := a.IntVal(); ok {
		return nil, v
	}
	if a.Op == "+" && len(a.Args) == 2 {
		if v, ok := a.Args[1].IntVal(); ok {
			return a.Args[0], v
		}
	}
	return a, 0
}

func Store(arr, idx, v *Term) *Term {
	if arr.S.K != SArray {
		panic("store on non-array")
	}
	return App("store", arr.S, arr, idx, v)
}

func ConstArray(s *Sort, v *Term) *Term {
	return &Term{Op: "constarray", S: s, Args: []*Term{v}}
}

func Forall(bs []Bound, body *Term) *Term {
	if body.IsTrue() || len(bs) == 0 {
		return body
	}
	return &Term{Op: "forall", S: BoolS, Q: bs, Args: []*Term{body}}
}
func Exists(bs []Bound, body *Term) *Term {
	if body.IsFalse() || len(bs) == 0 {
		return body
	}
	return &Term{Op: "exists", S: BoolS, Q: bs, Args: []*Term{body}}
}

func quoteSym(s string) string {
	simple := true
	for i := 0; i < len(s); i++ {
		c := s[i]
		if !(c >= 'a' && c <= 'z' || c >= 'A' && c <= 'Z' || c >= '0' && c <= '9' && i > 0 || strings.IndexByte("_.$!@%^&*~<>=/+-?", c) >= 0) {
			simple = false
			break
		}
	}
	if simple && s != "" {
		return s
	}
	return "|" + strings.NewReplacer("|", "!", "\\", "!").Replace(s) + "|"
}

func smtString(s string) string {
	var b strings.Builder
	b.WriteByte('"')
	for i := 0; i < len(s); i++ {
		c := s[i]
		switch {
		case c == '"':
			b.WriteString(`""`)
		case c == '\\' || c < 0x20 || c >= 0x7f:
			fmt.Fprintf(&b, `\u{%x}`, c)
		default:
			b.WriteByte(c)
		}
	}
	b.WriteByte('"')
	return b.String()
}

func (t *Term) String() string {
	var b strings.Builder
	t.write(&b)
	return b.String()
}

func (t *Term) write(b *strings.Builder) {
	if t.Op == "" {
		switch {
		case t.I != nil:
			if t.S.K == SReal {
				b.WriteString(realLitText(t.I))
			} else if t.I.Sign() < 0 {
				b.WriteString("(- ")
				b.WriteString(new(big.Int).Neg(t.I).String())
				b.WriteString(")")
			} else {
				b.WriteString(t.I.String())
			}
		case t.BLit == 1:
			b.WriteString("true")
		case t.BLit == 2:
			b.WriteString("false")
		case t.SLit != nil:
			b.WriteString(smtString(*t.SLit))
		default:
			if strings.HasPrefix(t.Name, "(") || t.S.K == SReal && len(t.Name) > 0 && (t.Name[0] >= '0' && t.Name[0] <= '9') {
				b.WriteString(t.Name)
			} else {
				b.WriteString(quoteSym(t.Name))
			}
		}
		return
	}
	switch t.Op {
	case "forall", "exists":
		b.WriteString("(" + t.Op + " (")
		for _, q := range t.Q {
			b.WriteString("(" + quoteSym(q.Name) + " " + q.S.String() + ")")
		}
		b.WriteString(") ")
		if len(t.Pat) > 0 {
			b.WriteString("(! ")
		}
		t.Args[0].write(b)
		if len(t.Pat) > 0 {
			b.WriteString(" :pattern (")
			for i, p := range t.Pat {
				if i > 0 {
					b.WriteByte(' ')
				}
				p.write(b)
			}
			b.WriteString("))")
		}
		b.WriteString(")")
		return
	case "constarray":
		b.WriteString("((as const " + t.S.String() + ") ")
		t.Args[0].write(b)
		b.WriteString(")")
		return
	}
	if len(t.Args) == 0 {
		b.WriteString(quoteSym(t.Op))
		return
	}
	b.WriteString("(")
	if isBuiltinOp(t.Op) {
		b.WriteString(t.Op)
	} else {
		b.WriteString(quoteSym(t.Op))
	}
	for _, a := range t.Args {
		b.WriteByte(' ')
		a.write(b)
	}
	b.WriteString(")")
}

var builtinOps = map[string]bool{"and": true, "or": true, "not": true, "=>": true, "ite": true, "=": true, "+": true, "-": true, "*": true, "/": true,
	"div": true, "mod": true, "<": true, "<=": true, ">": true, ">=": true, "select": true, "store": true, "to_real": true, "to_int": true,
	"str.++": true, "str.len": true, "str.at": true, "str.substr": true, "str.prefixof": true, "str.suffixof": true, "str.contains": true,
	"str.to_code": true, "str.from_code": true, "str.<": true, "str.<=": true, "str.indexof": true, "str.replace": true, "distinct": true, "str.from_int": true, "str.to_int": true, "xor": true}

func isBuiltinOp(op string) bool { return builtinOps[op] }

// size of a term (nodes), used to decide when to name sub-terms.
func (t *Term) Size() int {
	n := 1
	for _, a := range t.Args {
		n += a.Size()
	}
	return n
}

// Substitute variables by name.
func (t *Term) Subst(m map[string]*Term) *Term {
	if len(m) == 0 {
		return t
	}
	if t.Op == "" {
		if t.Name != "" {
			if r, ok := m[t.Name]; ok {
				return r
			}
		}
		return t
	}
	changed := false
	args := make([]*Term, len(t.Args))
	for i, a := range t.Args {
		args[i] = a.Subst(m)
		if args[i] != a {
			changed = true
		}
	}
	if !changed {
		return t
	}
	nt := *t
	nt.Args = args
	return &nt
}

// free variable names of a term (atoms with Name), excluding bound ones.
func (t *Term) Vars(into map[string]*Sort) {
	t.vars(into, nil)
}
func (t *Term) vars(into map[string]*Sort, bound map[string]bool) {
	if t.Op == "" {
		if t.Name != "" && !strings.HasPrefix(t.Name, "(") && !bound[t.Name] {
			into[t.Name] = t.S
		}
		return
	}
	if len(t.Q) > 0 {
		nb := map[string]bool{}
		for k := range bound {
			nb[k] = true
		}
		for _, q := range t.Q {
			nb[q.Name] = true
		}
		bound = nb
	}
	for _, a := range t.Args {
		a.vars(into, bound)
	}
	for _, p := range t.Pat {
		p.vars(into, bound)
	}
}

func sortedKeys[V any](m map[string]V) []string {
	ks := make([]string, 0, len(m))
	for k := range m {
		ks = append(ks, k)
	}
	sort.Strings(ks)
	return ks
}

// ---------------------------------------------------------------- quantifier normalisation
//
// A quantified contract such as  forall j :: 0 <= j < len(s) ==> P(s[j])  reads the
// backing array at index (off + j).  E-matching cannot instantiate that with a
// ground term (off' + j') when off' differs syntactically, so the bound variable is
// shifted to range over absolute indices:  j := k - off  (a bijection), after which
// the index is just k and the trigger is select(arr, k).

func containsVar(t *Term, name string) bool {
	if t.Op == "" {
		return t.Name == name
	}
	for _, q := range t.Q {
		if q.Name == name {
			return false
		}
	}
	for _, a := range t.Args {
		if containsVar(a, name) {
			return true
		}
	}
	return false
}

// collect offsets T of index terms (+ T j) / (+ j T) used directly as select indices
func collectOffsets(t *Term, name string, offs *[]*Term, bare *bool) {
	if t.Op == "select" && len(t.Args) == 2 {
		idx := t.Args[1]
		if idx.Op == "" && idx.Name == name {
			*bare = true
		} else if idx.Op == "+" && len(idx.Args) == 2 {
			a, b := idx.Args[0], idx.Args[1]
			if b.Op == "" && b.Name == name && !containsVar(a, name) {
				*offs = append(*offs, a)
			} else if a.Op == "" && a.Name == name && !containsVar(b, name) {
				*offs = append(*offs, b)
			}
		}
	}
	for _, a := range t.Args {
		collectOffsets(a, name, offs, bare)
	}
}

func resimplify(t *Term) *Term {
	if t.Op == "" {
		return t
	}
	args := make([]*Term, len(t.Args))
	changed := false
	for i, a := range t.Args {
		args[i] = resimplify(a)
		if args[i] != a {
			changed = true
		}
	}
	switch {
	case t.Op == "+" && len(args) == 2 && t.S.K == SInt:
		return addShift(args[0], args[1])
	case t.Op == "-" && len(args) == 2 && t.S.K == SInt:
		return Sub(args[0], args[1])
	}
	if !changed {
		return t
	}
	nt := *t
	nt.Args = args
	return &nt
}

// a + b with cancellation of (x - a) patterns
func addShift(a, b *Term) *Term {
	if b.Op == "-" && len(b.Args) == 2 && termEq(b.Args[1], a) {
		return b.Args[0]
	}
	if a.Op == "-" && len(a.Args) == 2 && termEq(a.Args[1], b) {
		return a.Args[0]
	}
	// literal offsets: (c + (k + (-c)))
	if a.Op == "" && a.I != nil && !(b.Op == "" && b.I != nil) {
		a, b = b, a
	}
	return Add(a, b)
}

func shiftQuantVars(bs []Bound, body *Term) *Term {
	for _, bd := range bs {
		if bd.S.K != SInt {
			continue
		}
		var offs []*Term
		bare := false
		collectOffsets(body, bd.Name, &offs, &bare)
		if bare || len(offs) == 0 {
			continue
		}
		same := true
		for _, o := range offs[1:] {
			if !termEq(o, offs[0]) {
				same = false
			}
		}
		if !same || isZero(offs[0]) {
			continue
		}
		// offsets must not mention other bound variables of this quantifier
		clean := true
		for _, b2 := range bs {
			if containsVar(offs[0], b2.Name) {
				clean = false
			}
		}
		if !clean {
			continue
		}
		v := Var(bd.Name, IntS)
		body = resimplify(body.Subst(map[string]*Term{bd.Name: App("-", IntS, v, offs[0])}))
	}
	return body
}
