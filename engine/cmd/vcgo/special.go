package main

// Specially modelled library calls (sync) and ghost monitors.

import (
	"fmt"
	"go/types"
	"strings"

	"golang.org/x/tools/go/ssa"
)

type specialHandler func(f *Frame, instr ssa.Instruction, callee *ssa.Function, args []*Val, setResult func(*Val))

var specialCalls map[string]specialHandler
var specialModKeys map[string]func(e *Enc, c *ssa.CallCommon, m map[string]*Sort)

func init() {
	specialCalls = map[string]specialHandler{
		"(*sync.Mutex).Lock":      lockCall,
		"(*sync.Mutex).Unlock":    unlockCall,
		"(*sync.RWMutex).Lock":    lockCall,
		"(*sync.RWMutex).Unlock":  unlockCall,
		"(*sync.RWMutex).RLock":   lockCall,
		"(*sync.RWMutex).RUnlock": unlockCall,
		"(*sync.Cond).Wait":       condWait,
		"(*sync.Cond).Signal":     noopCall,
		"(*sync.Cond).Broadcast":  noopCall,
	}
	for _, n := range writerHelpers {
		specialCalls[n] = writerMonitorCall
	}
	specialModKeys = map[string]func(e *Enc, c *ssa.CallCommon, m map[string]*Sort){
		"(*sync.Mutex).Lock":      lockModKeys,
		"(*sync.Mutex).Unlock":    lockModKeys,
		"(*sync.RWMutex).Lock":    lockModKeys,
		"(*sync.RWMutex).Unlock":  lockModKeys,
		"(*sync.RWMutex).RLock":   lockModKeys,
		"(*sync.RWMutex).RUnlock": lockModKeys,
		"(*sync.Cond).Wait":       condModKeys,
		"(*sync.Cond).Signal":     func(*Enc, *ssa.CallCommon, map[string]*Sort) {},
		"(*sync.Cond).Broadcast":  func(*Enc, *ssa.CallCommon, map[string]*Sort) {},
	}
	for _, n := range writerHelpers {
		specialModKeys[n] = func(e *Enc, c *ssa.CallCommon, m map[string]*Sort) {
			if e.TopC != nil && len(e.TopC.Monitor) > 0 {
				m[monQKey], m[monKKey] = IntS, IntS
				return
			}
			if callee := c.StaticCallee(); callee != nil {
				if fc := e.P.Cs.Funcs[funcKey(callee)]; fc != nil {
					e.contractModKeys(fc, callee, m)
				}
			}
		}
	}
}

// The formatter's output primitives.  Under a contract with a writer monitor
// (`monitor <automaton> sink w expects s` where w is not a byte slice) a call
// mustWriteByte(w, b) / mustWriteString(w, x) steps the ghost automaton over the
// bytes written; the monitor state lives in the ghost state keys below.  Outside
// such a contract the helpers have no effect on modelled state.
var writerHelpers = []string{
	"github.com/martian-lang/martian/martian/syntax.mustWriteByte",
	"github.com/martian-lang/martian/martian/syntax.mustWriteString",
}

const monQKey, monKKey = "GH$monq", "GH$monk"

func (f *Frame) writerMonitor() *monitorSpec {
	ms := f.topMonitor()
	if ms == nil {
		return nil
	}
	v, ok := f.topFrame().params[ms.sink]
	if !ok || v.K == VSlice {
		return nil
	}
	return ms
}

func (f *Frame) topFrame() *Frame {
	if f.E.top != nil {
		return f.E.top
	}
	return f
}

func writerMonitorCall(f *Frame, instr ssa.Instruction, callee *ssa.Function, args []*Val, setResult func(*Val)) {
	ms := f.writerMonitor()
	if ms == nil {
		if fc := f.E.P.Cs.Funcs[funcKey(callee)]; fc != nil {
			f.contractCall(instr, callee, fc, args, setResult)
			return
		}
	}
	defer setResult(nil)
	if ms == nil {
		f.E.Trusted["syntax.mustWriteByte/mustWriteString: no effect on modelled state (output is not modelled outside a writer monitor)"] = true
		return
	}
	sink := f.topFrame().params[ms.sink]
	if !termEq(args[0].X, sink.X) && !(args[0].K == VIface && sink.K == VIface && termEq(args[0].X, sink.X)) {
		f.E.fail("write to a writer other than the monitored sink %s", ms.sink)
	}
	src := f.monitorSource(ms)
	q := f.st.Get(monQKey, IntS)
	k := f.st.Get(monKKey, IntS)
	f.E.noteVars(q)
	f.E.noteVars(k)
	desc := f.E.P.exprTextAt(instr.Pos(), isExprNode)
	where := f.where(instr.Pos())
	step := func(b *Term, active *Term) {
		b = f.E.name(b, f.prefix+"mb")
		g := f.E.name(And(f.curGuard, active), f.prefix+"g_mon")
		nq := f.monitorFun(ms.name, "next", q, b)
		ne := f.monitorFun(ms.name, "nemit", q, b)
		f.E.addObl("monitor."+ms.name+".step", desc, g, Neq(nq, f.monitorConst(ms.name, "REJECT")), where, f.props())
		var emit []*Term
		for j, en := range []string{"e1", "e2", "e3", "e4"} {
			if _, ok := f.E.P.Spec.Syms[ms.name+"_"+en]; !ok {
				break
			}
			ev := f.monitorFun(ms.name, en, q, b)
			at := Add(k, IntLit(int64(j)))
			emit = append(emit, Implies(Ge(ne, IntLit(int64(j+1))), And(Lt(at, src.Len), Eq(Select(src.Arr, Add(src.Off, at)), ev))))
		}
		f.E.addObl("monitor."+ms.name+".emit", desc, g, And(emit...), where, f.props())
		q = f.E.name(Ite(active, nq, q), f.prefix+"mq")
		k = f.E.name(Ite(active, Add(k, ne), k), f.prefix+"mk")
	}
	switch {
	case strings.HasSuffix(fullName(callee), "mustWriteByte"):
		step(args[1].X, True)
	default:
		y := args[1]
		if y.K != VBytes {
			f.E.fail("monitored write of an opaque string (needs mode bytes)")
		}
		if n, ok := y.Len.IntVal(); ok && n <= maxUnroll {
			for i := int64(0); i < n; i++ {
				step(Select(y.Arr, Add(y.Off, IntLit(i))), True)
			}
		} else {
			// a run of plain bytes copied from the source: by induction over the run (trusted
			// schema) from the discharged lemma  plain(b) => next(RUN,b)=RUN, nemit=1, e1=b
			run := f.monitorConst(ms.name, "RUN")
			jb := Bound{Name: fmt.Sprintf("j!run%d", f.E.nextQ()), S: IntS}
			jv := Var(jb.Name, IntS)
			yb := Select(y.Arr, Add(y.Off, jv))
			inRun := And(Ge(jv, IntLit(0)), Lt(jv, y.Len))
			f.E.addObl("monitor."+ms.name+".run.state", desc, f.curGuard, Or(Eq(y.Len, IntLit(0)), Eq(q, run)), where, f.props())
			f.E.addObl("monitor."+ms.name+".run.plain", desc, f.curGuard,
				Forall([]Bound{jb}, Implies(inRun, f.monitorFunB(ms.name, "plain", yb))), where, f.props())
			f.E.addObl("monitor."+ms.name+".run.emit", desc, f.curGuard,
				And(Le(Add(k, y.Len), src.Len), Forall([]Bound{jb}, Implies(inRun, Eq(yb, Select(src.Arr, Add(src.Off, Add(k, jv))))))), where, f.props())
			if !f.E.runLemma[ms.name] {
				if f.E.runLemma == nil {
					f.E.runLemma = map[string]bool{}
				}
				f.E.runLemma[ms.name] = true
				bb := Bound{Name: "b!run", S: IntS}
				bv := Var(bb.Name, IntS)
				f.E.addObl("monitor."+ms.name+".run.lemma", "plain bytes keep the run state and emit themselves", True,
					Forall([]Bound{bb}, Implies(f.monitorFunB(ms.name, "plain", bv),
						And(Eq(f.monitorFun(ms.name, "next", run, bv), run), Eq(f.monitorFun(ms.name, "nemit", run, bv), IntLit(1)), Eq(f.monitorFun(ms.name, "e1", run, bv), bv)))),
					where, f.props())
				f.E.Trusted["induction over the length of a run of plain bytes (schema), from the discharged lemma monitor."+ms.name+".run.lemma"] = true
			}
			k = f.E.name(Add(k, y.Len), f.prefix+"mk")
		}
	}
	f.st = f.st.Clone()
	f.st.Set(monQKey, IntS, q)
	f.st.Set(monKKey, IntS, k)
}

func (f *Frame) monitorFunB(mon, name string, args ...*Term) *Term {
	full := mon + "_" + name
	sym, ok := f.E.P.Spec.Syms[full]
	if !ok {
		f.E.fail("monitor predicate %s not found in spec library", full)
	}
	f.E.Uses[sym.Lib] = true
	return App(full, BoolS, args...)
}

func noopCall(f *Frame, instr ssa.Instruction, callee *ssa.Function, args []*Val, setResult func(*Val)) {
	setResult(nil)
}

// static (struct type, mutex field) of a mutex receiver expression &x.mu
func mutexOwner(v ssa.Value) (*types.Named, string, ssa.Value, bool) {
	fa, ok := v.(*ssa.FieldAddr)
	if !ok {
		return nil, "", nil, false
	}
	st := fa.X.Type().Underlying().(*types.Pointer).Elem()
	n, ok := st.(*types.Named)
	if !ok {
		return nil, "", nil, false
	}
	return n, st.Underlying().(*types.Struct).Field(fa.Field).Name(), fa.X, true
}

func (e *Enc) typeContractFor(n *types.Named) *TypeContract {
	if n == nil || n.Obj().Pkg() == nil {
		return nil
	}
	return e.P.Cs.Types[pkgQualifier(n.Obj().Pkg())+"."+n.Obj().Name()]
}

// keys havocked when the lock protecting (n, mu) is acquired
func (e *Enc) guardedKeys(n *types.Named, mu string, m map[string]*Sort) {
	tc := e.typeContractFor(n)
	if tc == nil {
		return
	}
	st := n.Underlying().(*types.Struct)
	for _, fname := range tc.GuardedBy[mu] {
		for i := 0; i < st.NumFields(); i++ {
			if st.Field(i).Name() != fname {
				continue
			}
			ft := st.Field(i).Type()
			e.addLeafKeys(m, "F$"+typeKey(n)+"$"+fname, ft, AObj)
			switch u := ft.Underlying().(type) {
			case *types.Slice:
				e.addLeafKeys(m, "M$"+typeKey(u.Elem()), u.Elem(), AElem)
				if hasChan(u.Elem()) {
					m["closed"] = ArrayS(IntS, BoolS)
				}
			case *types.Map:
				e.addMapKeys(m, ft)
			}
		}
	}
}

func hasChan(t types.Type) bool {
	switch u := t.Underlying().(type) {
	case *types.Chan:
		return true
	case *types.Struct:
		for i := 0; i < u.NumFields(); i++ {
			if hasChan(u.Field(i).Type()) {
				return true
			}
		}
	}
	return false
}

func lockModKeys(e *Enc, c *ssa.CallCommon, m map[string]*Sort) {
	n, mu, _, ok := mutexOwner(c.Args[0])
	if !ok {
		return
	}
	m["held$F$"+typeKey(n)+"$"+mu] = ArrayS(IntS, BoolS)
	e.guardedKeys(n, mu, m)
}

func condModKeys(e *Enc, c *ssa.CallCommon, m map[string]*Sort) {
	n, mu, _, ok := condOwner(e, c.Args[0])
	if !ok {
		return
	}
	m["held$F$"+typeKey(n)+"$"+mu] = ArrayS(IntS, BoolS)
	e.guardedKeys(n, mu, m)
}

// cond receiver: *(&x.cond) where the type contract says "cond cond : mu" via opt
func condOwner(e *Enc, v ssa.Value) (*types.Named, string, ssa.Value, bool) {
	u, ok := v.(*ssa.UnOp)
	if !ok {
		return nil, "", nil, false
	}
	n, fld, obj, ok := mutexOwner(u.X)
	if !ok {
		return nil, "", nil, false
	}
	tc := e.typeContractFor(n)
	if tc == nil {
		return nil, "", nil, false
	}
	for mu, fields := range tc.GuardedBy {
		for _, f := range fields {
			if f == "cond:"+fld {
				return n, mu, obj, true
			}
		}
	}
	return nil, "", nil, false
}

func (f *Frame) selfEnv(obj *Term, n *types.Named, st *State) *Env {
	self := &Val{K: VScalar, T: types.NewPointer(n), X: obj}
	return &Env{F: f, State: st, Old: f.entryState, Vars: map[string]*Val{"self": self}, Fn: f.Fn}
}

func (f *Frame) acquire(instr ssa.Instruction, n *types.Named, mu string, obj *Term, checkNotHeld bool) {
	e := f.E
	key := "held$F$" + typeKey(n) + "$" + mu
	hs := ArrayS(IntS, BoolS)
	held := f.st.Get(key, hs)
	e.noteVars(held)
	tc := e.typeContractFor(n)
	if tc != nil && checkNotHeld {
		e.addObl("lock.notheld", mu, f.curGuard, Not(Select(held, obj)), f.where(instr.Pos()), f.propsWith(tc.Props))
	}
	f.st = f.st.Clone()
	f.st.Set(key, hs, e.name(Store(held, obj, True), f.prefix+key))
	if tc == nil {
		return
	}
	e.Trusted["sync.Mutex provides mutual exclusion; lock invariant of "+tc.Key+" holds whenever the lock is free (monitor rule)"] = true
	// havoc guarded state of this object: other threads may have changed it
	m := map[string]*Sort{}
	e.guardedKeys(n, mu, m)
	for _, k := range sortedKeys(m) {
		s := m[k]
		cur := f.st.Get(k, s)
		e.noteVars(cur)
		if strings.HasPrefix(k, "F$"+typeKey(n)+"$") {
			// only this object's fields
			f.st.Set(k, s, e.name(Store(cur, obj, f.fresh("lk$"+k, s.Elem)), f.prefix+"lk$"+k))
		} else {
			f.st.Set(k, s, f.fresh("lk$"+k, s))
		}
	}
	// well-formedness of the havocked fields
	stt := n.Underlying().(*types.Struct)
	for _, fname := range tc.GuardedBy[mu] {
		for i := 0; i < stt.NumFields(); i++ {
			if stt.Field(i).Name() == fname {
				a := &Addr{Kind: AObj, Obj: obj, Key: "F$" + typeKey(n), Path: "$" + fname, T: stt.Field(i).Type()}
				v := f.load(a, f.st)
				f.assumeWF(v)
				f.assumeAllocated(v)
			}
		}
	}
	env := f.selfEnv(obj, n, f.st)
	for _, cl := range tc.Invariants {
		f.assume(f.evalBool(cl.E, env), "lock invariant after acquire")
	}
	if f.isTop {
		f.lockSnap = f.st // state at the start of the critical section (for `critical` clauses)
	}
}

func (f *Frame) propsWith(extra []string) []string {
	ps := f.props()
	if len(extra) == 0 {
		return ps
	}
	return extra
}

func (f *Frame) release(instr ssa.Instruction, n *types.Named, mu string, obj *Term) {
	e := f.E
	key := "held$F$" + typeKey(n) + "$" + mu
	hs := ArrayS(IntS, BoolS)
	held := f.st.Get(key, hs)
	e.noteVars(held)
	tc := e.typeContractFor(n)
	if tc != nil {
		e.addObl("unlock.held", mu, f.curGuard, Select(held, obj), f.where(instr.Pos()), f.propsWith(tc.Props))
		env := f.selfEnv(obj, n, f.st)
		for i, cl := range tc.Invariants {
			label := cl.Label
			if label == "" {
				label = fmt.Sprintf("%d", i+1)
			}
			ps := cl.Props
			if len(ps) == 0 {
				ps = tc.Props
			}
			e.addObl("lockinv", tc.Key+"."+label, f.curGuard, f.evalBool(cl.E, env), f.where(instr.Pos()), ps)
		}
		// postconditions of the critical section of the function under verification
		if f.isTop && f.C != nil && f.lockSnap != nil {
			for i, cl := range f.C.Critical {
				label := cl.Label
				if label == "" {
					label = fmt.Sprintf("%d", i+1)
				}
				cenv := &Env{F: f, State: f.st, Old: f.lockSnap, Fn: f.Fn}
				e.addObl("critical", label, f.curGuard, f.evalBool(cl.E, cenv), cl.Where, f.clauseProps(cl))
			}
		}
	}
	f.st = f.st.Clone()
	f.st.Set(key, hs, e.name(Store(held, obj, False), f.prefix+key))
}

func lockCall(f *Frame, instr ssa.Instruction, callee *ssa.Function, args []*Val, setResult func(*Val)) {
	c := callCommonOf(instr)
	n, mu, objv, ok := mutexOwner(c.Args[0])
	if !ok {
		// a mutex we know nothing about: no modelled effect
		f.E.Assumes["lock on unmodelled mutex at "+f.where(instr.Pos())] = true
		setResult(nil)
		return
	}
	obj := f.val(objv)
	f.acquire(instr, n, mu, obj.X, true)
	setResult(nil)
}

func unlockCall(f *Frame, instr ssa.Instruction, callee *ssa.Function, args []*Val, setResult func(*Val)) {
	c := callCommonOf(instr)
	n, mu, objv, ok := mutexOwner(c.Args[0])
	if !ok {
		setResult(nil)
		return
	}
	obj := f.val(objv)
	f.release(instr, n, mu, obj.X)
	setResult(nil)
}

func condWait(f *Frame, instr ssa.Instruction, callee *ssa.Function, args []*Val, setResult func(*Val)) {
	c := callCommonOf(instr)
	n, mu, objv, ok := condOwner(f.E, c.Args[0])
	if !ok {
		f.E.fail("sync.Cond.Wait on a condition variable without a 'cond:' entry in the type contract")
	}
	obj := f.val(objv)
	f.release(instr, n, mu, obj.X)
	f.acquire(instr, n, mu, obj.X, false)
	setResult(nil)
}

func callCommonOf(instr ssa.Instruction) *ssa.CallCommon {
	switch i := instr.(type) {
	case *ssa.Call:
		return &i.Call
	case *ssa.Defer:
		return &i.Call
	case *ssa.Go:
		return &i.Call
	}
	return nil
}

// guardedAccess: reads/writes of fields declared guarded_by need the lock.
func (f *Frame) guardedAccess(a *Addr, write bool) {
	if a.Kind != AObj || !strings.HasPrefix(a.Key, "F$") || a.Path == "" {
		return
	}
	tname := strings.TrimPrefix(a.Key, "F$")
	tc := f.E.P.Cs.Types[tname]
	if tc == nil || len(tc.GuardedBy) == 0 {
		return
	}
	field := strings.SplitN(strings.TrimPrefix(a.Path, "$"), "$", 2)[0]
	for mu, fields := range tc.GuardedBy {
		for _, g := range fields {
			if g == field {
				key := "held$" + a.Key + "$" + mu
				held := f.st.Get(key, ArrayS(IntS, BoolS))
				f.E.noteVars(held)
				f.E.addObl("guarded", tname+"."+field, f.curGuard, Select(held, a.Obj), "", tc.Props)
			}
		}
	}
}

// ---------------------------------------------------------------- monitors

type monitorSpec struct {
	name   string // automaton (spec library prefix)
	sink   string // parameter name or "result"
	source string // parameter holding the expected bytes
}

func parseMonitor(cl *Clause) (*monitorSpec, error) {
	fs := strings.Fields(cl.Text)
	// monitor <name> sink <param> expects <param>
	if len(fs) != 5 || fs[1] != "sink" || fs[3] != "expects" {
		return nil, fmt.Errorf("%s: monitor <automaton> sink <param> expects <param>", cl.Where)
	}
	return &monitorSpec{name: fs[0], sink: fs[2], source: fs[4]}, nil
}

func (f *Frame) monitorConst(mon, name string) *Term {
	full := mon + "_" + name
	sym, ok := f.E.P.Spec.Syms[full]
	if !ok {
		f.E.fail("monitor constant %s not found in spec library", full)
	}
	f.E.Uses[sym.Lib] = true
	return App(full, IntS)
}

func (f *Frame) monitorFun(mon, name string, args ...*Term) *Term {
	full := mon + "_" + name
	sym, ok := f.E.P.Spec.Syms[full]
	if !ok {
		f.E.fail("monitor function %s not found in spec library", full)
	}
	f.E.Uses[sym.Lib] = true
	return App(full, sym.Res, args...)
}

// monitorAppend steps the ghost automaton over the appended bytes.
func (f *Frame) monitorAppend(in *ssa.Call, s, y *Val, n *Term, bound int64, known bool, res *Val, pre *State) {
	ms := f.topMonitor()
	if ms == nil {
		f.E.fail("monitored value appended to in a function without a monitor clause")
	}
	q, k := s.Ghost["q"], s.Ghost["k"]
	src := f.monitorSource(ms)
	if bound < 0 {
		f.E.fail("monitored append of unbounded length needs a run lemma (not available)")
	}
	for i := int64(0); i < bound; i++ {
		idx := IntLit(i)
		var b *Term
		switch y.K {
		case VSlice:
			cur := pre.Get("M$byte", ArrayS(IntS, ArrayS(IntS, IntS)))
			b = Select(Select(cur, y.Base), Add(y.Off, idx))
		case VBytes:
			b = Select(y.Arr, Add(y.Off, idx))
		default:
			f.E.fail("monitored append of opaque string")
		}
		b = f.E.name(b, f.prefix+"mb")
		active := True
		if !known {
			active = Lt(idx, n)
		}
		g := f.E.name(And(f.curGuard, active), f.prefix+"g_mon")
		nq := f.monitorFun(ms.name, "next", q, b)
		ne := f.monitorFun(ms.name, "nemit", q, b)
		e1 := f.monitorFun(ms.name, "e1", q, b)
		e2 := f.monitorFun(ms.name, "e2", q, b)
		desc := f.E.P.exprTextAt(in.Pos(), isExprNode)
		f.E.addObl("monitor."+ms.name+".step", desc, g, Neq(nq, f.monitorConst(ms.name, "REJECT")), f.where(in.Pos()), f.props())
		f.E.addObl("monitor."+ms.name+".emit", desc, g,
			And(Implies(Ge(ne, IntLit(1)), And(Lt(k, src.Len), Eq(Select(src.Arr, Add(src.Off, k)), e1))),
				Implies(Ge(ne, IntLit(2)), And(Lt(Add(k, IntLit(1)), src.Len), Eq(Select(src.Arr, Add(src.Off, Add(k, IntLit(1)))), e2)))),
			f.where(in.Pos()), f.props())
		q = f.E.name(Ite(active, nq, q), f.prefix+"mq")
		k = f.E.name(Ite(active, Add(k, ne), k), f.prefix+"mk")
	}
	res.Ghost = map[string]*Term{"q": q, "k": k}
}

func (f *Frame) topMonitor() *monitorSpec {
	c := f.C
	if c == nil || len(c.Monitor) == 0 {
		c = f.E.TopC
	}
	if c == nil || len(c.Monitor) == 0 {
		return nil
	}
	ms, err := parseMonitor(c.Monitor[0])
	if err != nil {
		f.E.fail("%v", err)
	}
	return ms
}

func (f *Frame) monitorSource(ms *monitorSpec) *Val {
	top := f.topFrame()
	v, ok := top.params[ms.source]
	if !ok {
		f.E.fail("monitor source %s is not a parameter", ms.source)
	}
	if v.K != VBytes {
		f.E.fail("monitor source must be a bytes-mode string")
	}
	return v
}
