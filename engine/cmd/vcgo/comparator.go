package main

// Comparator obligations (C10): the result of sort.Slice / sort.Sort is a function of the
// multiset being sorted only when the comparator is a strict weak order. For every call of
// sort.Slice, sort.SliceStable, sort.Sort or sort.Stable in a function of martian/core or
// martian/syntax the comparator (the closure, or the Less method of the sorted type) is
// executed symbolically two resp. three times from ONE state with permuted indices:
//
//   comparator.asym   not (less(i,j) && less(j,i))
//   comparator.trans  less(i,j) && less(j,k) ==> less(i,k)
//
// The comparator's free variables (the captured slice) and the heap are unconstrained, so
// the obligations hold for every slice content. Names carry the enclosing function and the
// text of the sorted expression, not the closure's ordinal.

import (
	"fmt"
	"go/ast"
	"go/types"
	"strings"

	"golang.org/x/tools/go/ssa"
)

type sortSite struct {
	parent *ssa.Function
	call   *ssa.Call
	less   *ssa.Function
	method bool // less is a Less method: parameters (recv, i, j)
	text   string
}

func findSortSites(p *Program, fn *ssa.Function) []sortSite {
	var out []sortSite
	for _, b := range fn.Blocks {
		for _, in := range b.Instrs {
			c, ok := in.(*ssa.Call)
			if !ok {
				continue
			}
			callee := c.Call.StaticCallee()
			if callee == nil || callee.Pkg == nil || callee.Pkg.Pkg.Path() != "sort" {
				continue
			}
			text := p.exprTextAt(c.Pos(), func(n ast.Node) bool { _, ok := n.(*ast.CallExpr); return ok })
			if k := strings.Index(text, ", func("); k > 0 {
				text = text[:k] + ")"
			}
			switch callee.Name() {
			case "Slice", "SliceStable":
				if len(c.Call.Args) != 2 {
					continue
				}
				var less *ssa.Function
				switch l := c.Call.Args[1].(type) {
				case *ssa.MakeClosure:
					less, _ = l.Fn.(*ssa.Function)
				case *ssa.Function:
					less = l
				}
				if less != nil && len(less.Blocks) > 0 {
					out = append(out, sortSite{fn, c, less, false, text})
				}
			case "Sort", "Stable":
				if len(c.Call.Args) != 1 {
					continue
				}
				v := c.Call.Args[0]
				if mi, ok := v.(*ssa.MakeInterface); ok {
					v = mi.X
				}
				t := v.Type()
				sel := p.SSA.MethodSets.MethodSet(t).Lookup(nil, "Less")
				if sel == nil {
					continue
				}
				less := p.SSA.MethodValue(sel)
				if less != nil && len(less.Blocks) > 0 {
					out = append(out, sortSite{fn, c, less, true, text})
				}
			}
		}
	}
	return out
}

func inComparatorScope(fn *ssa.Function) bool {
	if fn.Pkg == nil || fn.Synthetic != "" {
		return false
	}
	pp := fn.Pkg.Pkg.Path()
	return strings.HasSuffix(pp, "/martian/core") || strings.HasSuffix(pp, "/martian/syntax")
}

// VerifyComparators: one funcRun per enclosing function that sorts with a comparator.
func VerifyComparators(p *Program, prop string) []*funcRun {
	var runs []*funcRun
	for _, key := range p.sortedFuncKeys() {
		fn := p.ByKey[key]
		if fn == nil || !inComparatorScope(fn) {
			continue
		}
		sites := findSortSites(p, fn)
		if len(sites) == 0 {
			continue
		}
		r := &funcRun{key: key + "/comparators"}
		r.enc, r.err = verifyComparatorSites(p, key, sites, prop)
		runs = append(runs, r)
	}
	return runs
}

func verifyComparatorSites(p *Program, parentKey string, sites []sortSite, prop string) (enc *Enc, err error) {
	fc := &FuncContract{Key: parentKey, Props: []string{prop}, Mode: "opaque"}
	e := NewEnc(p, sites[0].parent, fc)
	defer func() {
		if r := recover(); r != nil {
			enc = e
			if ee, ok := r.(encError); ok {
				err = fmt.Errorf("%s: comparator outside the supported subset: %s", parentKey, ee.msg)
				return
			}
			err = fmt.Errorf("%s: comparator outside the supported subset (generator failure: %v)", parentKey, r)
		}
	}()
	count := map[string]int{}
	for si, s := range sites {
		// a set-up frame makes the shared inputs
		setup := &Frame{E: e, Fn: s.less, C: fc, vals: map[ssa.Value]*Val{}, params: map[string]*Val{}, prefix: fmt.Sprintf("s%d$", si)}
		setup.curGuard = True
		setup.st = NewState()
		var recv *Val
		if s.method {
			recv = setup.freshVal(s.less.Params[0].Type(), "recv")
			setup.assumeAllocated(recv)
		}
		var fvs []*Val
		for _, fv := range s.less.FreeVars {
			v := setup.freshVal(fv.Type(), "fv_"+fv.Name())
			setup.assumeAllocated(v)
			fvs = append(fvs, v)
		}
		idx := []*Val{setup.freshVal(types.Typ[types.Int], "i"), setup.freshVal(types.Typ[types.Int], "j"), setup.freshVal(types.Typ[types.Int], "k")}
		st0 := setup.st
		run := func(tag string, a, b *Val) *Term {
			f := &Frame{E: e, Fn: s.less, C: fc, vals: map[ssa.Value]*Val{}, params: map[string]*Val{}, prefix: fmt.Sprintf("s%d%s$", si, tag), freeVars: fvs}
			f.curGuard = True
			f.st = st0
			ps := s.less.Params
			if s.method {
				f.vals[ps[0]] = recv
				ps = ps[1:]
			}
			if len(ps) != 2 {
				e.fail("comparator with %d index parameters", len(ps))
			}
			f.vals[ps[0]], f.vals[ps[1]] = a, b
			f.encodeBody(True, st0)
			var alts []*Term
			for _, x := range f.exits {
				if len(x.results) != 1 || x.results[0].X == nil {
					e.fail("comparator result is not a boolean term")
				}
				alts = append(alts, And(x.guard, x.results[0].X))
			}
			return Or(alts...)
		}
		ij, ji := run("ij", idx[0], idx[1]), run("ji", idx[1], idx[0])
		jk, ik := run("jk", idx[1], idx[2]), run("ik", idx[0], idx[2])
		where := p.posString(s.call.Pos())
		add := func(kind string, goal *Term) {
			base := kind + ":" + s.text
			count[base]++
			o := &Obl{Name: fmt.Sprintf("%s/%s#%d", parentKey, base, count[base]), Kind: kind, Desc: s.text, Func: parentKey, Ord: e.tick(), Guard: True, Goal: goal, Props: []string{prop}, Where: where, Enc: e}
			e.noteVars(goal)
			e.obls = append(e.obls, o)
		}
		add("comparator.asym", Not(And(ij, ji)))
		add("comparator.trans", Implies(And(ij, jk), ik))
	}
	return e, nil
}
