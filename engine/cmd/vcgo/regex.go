package main

// Token contracts from the tokenizer's own regular expressions.
//
// Each `regexpRule(<constant string>, TOKEN)` initialiser in /repo's
// martian/syntax package is extracted from the typed AST on every run, parsed
// with regexp/syntax, compiled to the package's NFA program, determinised over
// bytes and minimised.  The DFA is emitted as SMT define-funs
//   <rule>_delta(q, b), <rule>_acc(q), <rule>_init, <rule>_dead
// plus an uninterpreted run function <rule>_run(arr, off, len, j).
// matches(rule, s) in a contract is the run predicate; rstate(rule, "text")
// names a DFA state by an access string.
//
// Dropped (stated in evidence): word-boundary and end-of-text assertions are
// treated as always true (a trailing \b constrains the byte AFTER the token,
// not the token text); bytes >= 0x80 are one symbol, accepted wherever the rune
// class contains U+00E9 (exact for these rules: non-ASCII is accepted only
// inside starred classes).

import (
	"fmt"
	"go/ast"
	"go/constant"
	"regexp/syntax"
	"sort"
	"strings"
)

type DFA struct {
	Name   string
	Source string
	N      int       // number of states; state 0.. N-1 ; dead = N-1? (explicit Dead)
	Init   int
	Dead   int
	Acc    []bool
	Trans  [][256]int
}

func buildDFA(name, expr string) (*DFA, error) {
	re, err := syntax.Parse(expr, syntax.Perl)
	if err != nil {
		return nil, err
	}
	prog, err := syntax.Compile(re.Simplify())
	if err != nil {
		return nil, err
	}
	closure := func(pcs []uint32, atBegin bool) []uint32 {
		seen := map[uint32]bool{}
		var out []uint32
		var visit func(pc uint32)
		visit = func(pc uint32) {
			if seen[pc] {
				return
			}
			seen[pc] = true
			in := &prog.Inst[pc]
			switch in.Op {
			case syntax.InstAlt, syntax.InstAltMatch:
				visit(in.Out)
				visit(in.Arg)
			case syntax.InstCapture, syntax.InstNop:
				visit(in.Out)
			case syntax.InstEmptyWidth:
				flags := syntax.EmptyOp(in.Arg)
				if flags&(syntax.EmptyBeginText|syntax.EmptyBeginLine) != 0 && !atBegin {
					return
				}
				visit(in.Out) // word boundaries / end assertions: treated as true
			case syntax.InstFail:
			default:
				out = append(out, pc)
			}
		}
		for _, pc := range pcs {
			visit(pc)
		}
		sort.Slice(out, func(i, j int) bool { return out[i] < out[j] })
		return out
	}
	key := func(s []uint32) string { return fmt.Sprint(s) }
	start := closure([]uint32{uint32(prog.Start)}, true)
	states := map[string]int{key(start): 0}
	sets := [][]uint32{start}
	var trans [][256]int
	dead := -1
	for i := 0; i < len(sets); i++ {
		var row [256]int
		for b := 0; b < 256; b++ {
			r := rune(b)
			if b >= 0x80 {
				r = 0xE9
			}
			var next []uint32
			for _, pc := range sets[i] {
				in := &prog.Inst[pc]
				switch in.Op {
				case syntax.InstRune, syntax.InstRune1, syntax.InstRuneAny, syntax.InstRuneAnyNotNL:
					if in.MatchRune(r) {
						next = append(next, in.Out)
					}
				}
			}
			ns := closure(next, false)
			k := key(ns)
			id, ok := states[k]
			if !ok {
				id = len(sets)
				states[k] = id
				sets = append(sets, ns)
				if len(sets) > 2000 {
					return nil, fmt.Errorf("DFA for %s too large", name)
				}
			}
			row[b] = id
		}
		trans = append(trans, row)
	}
	acc := make([]bool, len(sets))
	for i, s := range sets {
		for _, pc := range s {
			if prog.Inst[pc].Op == syntax.InstMatch {
				acc[i] = true
			}
		}
		if len(s) == 0 {
			dead = i
		}
	}
	if dead < 0 {
		// add an explicit dead state
		dead = len(sets)
		var row [256]int
		for b := range row {
			row[b] = dead
		}
		trans = append(trans, row)
		acc = append(acc, false)
	}
	// Moore minimisation
	n := len(trans)
	part := make([]int, n)
	for i := range part {
		if acc[i] {
			part[i] = 1
		}
	}
	for {
		sig := map[string]int{}
		np := make([]int, n)
		for i := 0; i < n; i++ {
			var sb strings.Builder
			fmt.Fprintf(&sb, "%d:", part[i])
			for b := 0; b < 256; b++ {
				fmt.Fprintf(&sb, "%d,", part[trans[i][b]])
			}
			k := sb.String()
			id, ok := sig[k]
			if !ok {
				id = len(sig)
				sig[k] = id
			}
			np[i] = id
		}
		same := true
		cnt := map[int]bool{}
		for _, p := range part {
			cnt[p] = true
		}
		if len(sig) != len(cnt) {
			same = false
		}
		part = np
		if same {
			break
		}
	}
	// renumber: init first, in BFS order for stability
	order := []int{part[0]}
	seenP := map[int]int{part[0]: 0}
	repr := map[int]int{}
	for i := 0; i < n; i++ {
		if _, ok := repr[part[i]]; !ok {
			repr[part[i]] = i
		}
	}
	for qi := 0; qi < len(order); qi++ {
		r := repr[order[qi]]
		for b := 0; b < 256; b++ {
			p := part[trans[r][b]]
			if _, ok := seenP[p]; !ok {
				seenP[p] = len(order)
				order = append(order, p)
			}
		}
	}
	d := &DFA{Name: name, Source: expr, N: len(order), Init: 0}
	d.Acc = make([]bool, d.N)
	d.Trans = make([][256]int, d.N)
	for newID, p := range order {
		r := repr[p]
		d.Acc[newID] = acc[r]
		for b := 0; b < 256; b++ {
			d.Trans[newID][b] = seenP[part[trans[r][b]]]
		}
	}
	d.Dead = -1
	if p, ok := seenP[part[dead]]; ok {
		d.Dead = p
	}
	return d, nil
}

func (d *DFA) run(s string) int {
	q := d.Init
	for i := 0; i < len(s); i++ {
		q = d.Trans[q][s[i]]
	}
	return q
}

// SMT text of the automaton.
func (d *DFA) smt() string {
	var b strings.Builder
	fmt.Fprintf(&b, ";; DFA of %s = %q (extracted from the source on this run; %d states)\n", d.Name, d.Source, d.N)
	fmt.Fprintf(&b, "(define-fun %s_init () Int %d)\n", d.Name, d.Init)
	fmt.Fprintf(&b, "(define-fun %s_dead () Int %d)\n", d.Name, d.Dead)
	fmt.Fprintf(&b, "(define-fun %s_acc ((q Int)) Bool (or false", d.Name)
	for i, a := range d.Acc {
		if a {
			fmt.Fprintf(&b, " (= q %d)", i)
		}
	}
	b.WriteString("))\n")
	fmt.Fprintf(&b, "(define-fun %s_delta ((q Int) (b Int)) Int\n", d.Name)
	closeN := 0
	for q := 0; q < d.N; q++ {
		if q == d.Dead {
			continue
		}
		fmt.Fprintf(&b, " (ite (= q %d) ", q)
		// ranges of equal targets
		inner := 0
		lo := 0
		type rng struct{ lo, hi, to int }
		var rs []rng
		for x := 1; x <= 256; x++ {
			if x == 256 || d.Trans[q][x] != d.Trans[q][lo] {
				rs = append(rs, rng{lo, x - 1, d.Trans[q][lo]})
				lo = x
			}
		}
		for _, r := range rs {
			if r.to == d.Dead {
				continue
			}
			if r.lo == r.hi {
				fmt.Fprintf(&b, "(ite (= b %d) %d ", r.lo, r.to)
			} else {
				fmt.Fprintf(&b, "(ite (and (<= %d b) (<= b %d)) %d ", r.lo, r.hi, r.to)
			}
			inner++
		}
		fmt.Fprintf(&b, "%d%s\n", d.Dead, strings.Repeat(")", inner))
		closeN++
	}
	fmt.Fprintf(&b, " %d%s)\n", d.Dead, strings.Repeat(")", closeN))
	fmt.Fprintf(&b, "(declare-fun %s_run ((Array Int Int) Int Int Int) Int)\n", d.Name)
	return b.String()
}

// extractTokenRules finds  name = regexpRule(<const string>, TOK)  in package syntax.
func (p *Program) extractTokenRules() (map[string]*DFA, error) {
	out := map[string]*DFA{}
	for _, pk := range p.Pkgs {
		if pkgQualifier(pk.Types) != "syntax" {
			continue
		}
		for _, f := range pk.Syntax {
			for _, decl := range f.Decls {
				gd, ok := decl.(*ast.GenDecl)
				if !ok {
					continue
				}
				for _, sp := range gd.Specs {
					vs, ok := sp.(*ast.ValueSpec)
					if !ok {
						continue
					}
					for i, v := range vs.Values {
						call, ok := v.(*ast.CallExpr)
						if !ok || len(call.Args) != 2 || i >= len(vs.Names) {
							continue
						}
						if id, ok := call.Fun.(*ast.Ident); !ok || id.Name != "regexpRule" {
							continue
						}
						tv, ok := pk.TypesInfo.Types[call.Args[0]]
						if !ok || tv.Value == nil || tv.Value.Kind() != constant.String {
							return nil, fmt.Errorf("token rule %s: expression is not a constant string", vs.Names[i].Name)
						}
						expr := constant.StringVal(tv.Value)
						d, err := buildDFA(vs.Names[i].Name, expr)
						if err != nil {
							return nil, fmt.Errorf("token rule %s: %v", vs.Names[i].Name, err)
						}
						out[vs.Names[i].Name] = d
					}
				}
			}
		}
	}
	return out, nil
}
