package main

import (
	"fmt"
	"go/ast"
	"go/types"
	"strings"

	"golang.org/x/tools/go/ssa"
)

// VerifyFunc generates all obligations of one function under contract.
func VerifyFunc(p *Program, key string) (enc *Enc, err error) {
	return VerifyFuncOpt(p, key, false)
}

// VerifyFuncOpt with noInv: the fallback encoding without any loop invariant of the
// function itself (loops are still cut: their modified state is havocked, nothing is
// assumed about it).  What discharges in this encoding does not depend on the names of
// locals, so it stays decided when a contract's invariants no longer attach.
func VerifyFuncOpt(p *Program, key string, noInv bool) (enc *Enc, err error) {
	fn := p.ByKey[key]
	fc := p.Cs.Funcs[key]
	if fn == nil {
		return nil, fmt.Errorf("function %s not found in the program (removed or renamed?)", key)
	}
	if fc == nil {
		return nil, fmt.Errorf("no contract for %s", key)
	}
	if len(fn.Blocks) == 0 {
		return nil, fmt.Errorf("function %s has no body", key)
	}
	e := NewEnc(p, fn, fc)
	e.NoInv = noInv
	defer func() {
		if r := recover(); r != nil {
			if ee, ok := r.(encError); ok {
				enc = e
				err = fmt.Errorf("%s: outside the supported subset or contract error: %s", key, ee.msg)
				return
			}
			// any other failure of the generator on this function: its obligations cannot be
			// generated (the check reports that; it must not take the whole run down)
			enc = e
			err = fmt.Errorf("%s: outside the supported subset (generator failure: %v)", key, r)
		}
	}()
	f := &Frame{E: e, Fn: fn, C: fc, vals: map[ssa.Value]*Val{}, params: map[string]*Val{}, isTop: true, nopanic: fc.NoPanic}
	f.curGuard = True
	f.st = NewState()
	f.entryState = f.st
	e.topFrame = f
	var ms *monitorSpec
	if len(fc.Monitor) > 0 {
		ms, err = parseMonitor(fc.Monitor[0])
		if err != nil {
			return nil, err
		}
	}
	e.top = f
	for _, prm := range fn.Params {
		v := f.freshVal(prm.Type(), "p_"+prm.Name())
		f.assumeAllocated(v)
		if ms != nil && prm.Name() == ms.sink {
			if v.K == VSlice {
				v.Ghost = map[string]*Term{"q": f.monitorConst(ms.name, "START"), "k": IntLit(0)}
			} else {
				// a writer: the monitor state is ghost state, initialised at entry
				f.st = f.st.Clone()
				f.st.Set(monQKey, IntS, f.monitorConst(ms.name, "START"))
				f.st.Set(monKKey, IntS, IntLit(0))
				f.entryState = f.st
			}
		}
		f.vals[prm] = v
		f.params[prm.Name()] = v
		e.topParams = append(e.topParams, ceParam{name: prm.Name(), typ: prm.Type(), val: v})
	}
	if len(fn.FreeVars) > 0 {
		return nil, fmt.Errorf("%s is a closure; verify its parent", key)
	}
	envEntry := &Env{F: f, State: f.st, Old: f.st, Fn: fn}
	for _, cl := range fc.Requires {
		f.assume(f.evalBool(cl.E, envEntry), "requires")
	}
	for _, ln := range fc.Apply {
		var lm *Lemma
		for _, x := range p.Cs.Lemmas {
			if x.Name == ln {
				lm = x
			}
		}
		if lm == nil {
			return nil, fmt.Errorf("%s: apply of unknown lemma %s", key, ln)
		}
		for _, u := range lm.Uses {
			e.Uses[u] = true
		}
		e.addFact(True, f.evalBool(lm.E, envEntry), "lemma "+ln+" (its own obligation lemma."+ln+")")
		if lm.Axiom {
			e.Assumes["axiom "+ln+": "+lm.Text] = true
		}
	}
	for _, cl := range fc.Assume {
		f.assume(f.evalBool(cl.E, envEntry), "assume (listed)")
		e.Assumes["assume clause in contract of "+key+": "+cl.Text] = true
	}
	// vacuity: the precondition must be satisfiable
	e.Covers = append(e.Covers, &Obl{Name: key + "/cover:requires", Kind: "cover", Func: key, Ord: e.tick(), Guard: True, Goal: False, Enc: e})
	f.encodeBody(True, f.st)
	// postconditions
	var exitGuards []*Term
	for xi, x := range f.exits {
		exitGuards = append(exitGuards, x.guard)
		var res *Val
		switch len(x.results) {
		case 0:
		case 1:
			res = x.results[0]
		default:
			res = &Val{K: VTuple, T: fn.Signature.Results(), Fields: x.results}
		}
		env := &Env{F: f, State: x.state, Old: f.entryState, Result: res, Fn: fn}
		f.curGuard = x.guard
		for i, cl := range fc.Ensures {
			label := cl.Label
			if label == "" {
				label = fmt.Sprintf("%d", i+1)
			}
			t := f.evalBool(cl.E, env)
			e.addObl("post", fmt.Sprintf("%s@%s", label, f.retText(x)), x.guard, t, cl.Where, f.clauseProps(cl))
		}
		f.frameObligations(x, xi)
	}
	e.Covers = append(e.Covers, &Obl{Name: key + "/cover:returns", Kind: "cover", Func: key, Ord: e.tick(), Guard: Or(exitGuards...), Goal: False, Enc: e})
	return e, nil
}

// frameObligations: with explicit modifies clauses (or pure), everything else
// that existed at entry is unchanged.
func (f *Frame) frameObligations(x exitPoint, xi int) {
	fc := f.C
	if len(fc.Modifies) == 0 && !fc.Pure {
		return
	}
	e := f.E
	// allowed locations: key -> list of object refs (nil = whole key)
	allowed := map[string][]*Term{}
	whole := map[string]bool{}
	envEntry := &Env{F: f, State: f.entryState, Old: f.entryState, Fn: f.Fn}
	for _, cl := range fc.Effects {
		name, _ := splitWord(cl.Text)
		whole[name] = true
	}
	for _, cl := range fc.Modifies {
		ex := cl.E
		switch ex.K {
		case "sel":
			obj := f.evalC(ex.A, envEntry)
			a := f.fieldAddrByName(obj, ex.Name)
			for _, l := range leavesOf(a.T, e.Mode) {
				k, _ := f.leafKey(a, l)
				allowed[k] = append(allowed[k], a.Obj)
			}
		case "call":
			switch ex.A.Name {
			case "ghost", "key":
				name := ex.Args[0].Name
				if ex.Args[0].K == "str" {
					name = ex.Args[0].Str
				}
				whole[name] = true
			case "all":
				sel := ex.Args[0]
				n := e.P.Named[sel.A.String()]
				if n != nil {
					m := map[string]*Sort{}
					e.addFieldKeys(m, n, sel.Name)
					for k := range m {
						whole[k] = true
					}
				}
			case "held":
				mu := f.evalC(ex.Args[0], envEntry)
				allowed["held$"+mu.Addr.Key+mu.Addr.Path] = append(allowed["held$"+mu.Addr.Key+mu.Addr.Path], mu.Addr.Obj)
			case "guarded":
				mu := f.evalC(ex.Args[0], envEntry)
				if n := e.P.Named[strings.TrimPrefix(mu.Addr.Key, "F$")]; n != nil {
					m := map[string]*Sort{}
					e.guardedKeys(n, strings.TrimPrefix(mu.Addr.Path, "$"), m)
					for k := range m {
						if strings.HasPrefix(k, "F$"+typeKey(n)+"$") {
							allowed[k] = append(allowed[k], mu.Addr.Obj)
						} else {
							whole[k] = true
						}
					}
				}
			case "elems":
				v := f.evalC(ex.Args[0], envEntry)
				key, ls := f.elemLeaves(v.T)
				for _, l := range ls {
					allowed[key+l.path] = append(allowed[key+l.path], v.Base)
				}
			case "mapof":
				v := f.evalC(ex.Args[0], envEntry)
				mk := f.mapInfo(v.T)
				allowed[mk.dom] = append(allowed[mk.dom], v.X)
				allowed[mk.length] = append(allowed[mk.length], v.X)
				for _, l := range mk.vleaves {
					allowed[mk.vkey+l.path] = append(allowed[mk.vkey+l.path], v.X)
				}
			}
		}
	}
	alloc0 := entryVar(allocKey, allocSort)
	for _, k := range sortedKeys(x.state.sorts) {
		s := x.state.sorts[k]
		if whole[k] || k == allocKey || strings.HasPrefix(k, "L$") || strings.HasPrefix(k, "DEFER$") || strings.HasPrefix(k, "VIS$") || strings.HasPrefix(k, "POS$") {
			continue
		}
		cur := x.state.m[k]
		old := entryVar(k, s)
		if termEq(cur, old) {
			continue
		}
		if s.K != SArray || s.Idx.K != SInt {
			e.addObl("frame", k+"@"+f.retText(x), x.guard, Eq(cur, old), fc.Where, f.props())
			continue
		}
		// for every object allocated at entry and not listed: unchanged
		ob := Bound{Name: "o!frame", S: IntS}
		ov := Var(ob.Name, IntS)
		conds := []*Term{allocatedIn(alloc0, ov)}
		for _, a := range allowed[k] {
			conds = append(conds, Neq(ov, a))
		}
		goal := Forall([]Bound{ob}, Implies(And(conds...), Eq(Select(cur, ov), Select(old, ov))))
		e.addObl("frame", k+"@"+f.retText(x), x.guard, goal, fc.Where, f.props())
	}
}

// ---------------------------------------------------------------- lemmas

// VerifyLemma: a closed formula over spec functions.
func VerifyLemma(p *Program, lm *Lemma) (*Enc, error) {
	e := NewEnc(p, nil, &FuncContract{Key: "lemma." + lm.Name, Props: lm.Props})
	for _, u := range lm.Uses {
		e.Uses[u] = true
	}
	var err error
	func() {
		defer func() {
			if r := recover(); r != nil {
				if ee, ok := r.(encError); ok {
					err = fmt.Errorf("lemma %s: %s", lm.Name, ee.msg)
					return
				}
				panic(r)
			}
		}()
		f := &Frame{E: e, vals: map[ssa.Value]*Val{}, params: map[string]*Val{}}
		f.curGuard = True
		f.st = NewState()
		f.entryState = f.st
		env := &Env{F: f, State: f.st, Old: f.st}
		for _, ln := range lm.Apply {
			var other *Lemma
			for _, x := range p.Cs.Lemmas {
				if x.Name == ln && x != lm {
					other = x
				}
			}
			if other == nil {
				e.fail("lemma %s applies unknown lemma %s", lm.Name, ln)
			}
			if len(other.Apply) > 0 {
				for _, a2 := range other.Apply {
					if a2 == lm.Name {
						e.fail("circular lemma application %s <-> %s", lm.Name, ln)
					}
				}
			}
			e.addFact(True, f.evalBool(other.E, env), "lemma "+ln+" (its own obligation)")
		}
		t := f.evalBool(lm.E, env)
		o := &Obl{Name: "lemma." + lm.Name, Kind: "lemma", Func: "lemma." + lm.Name, Ord: e.tick(), Guard: True, Goal: t, Props: lm.Props, Where: lm.Where, Enc: e}
		e.obls = append(e.obls, o)
	}()
	return e, err
}

var _ = types.Typ


// retText: source text of the return statement (stable under insertion of other returns)
func (f *Frame) retText(x exitPoint) string {
	t := f.E.P.exprTextAt(x.pos, func(n ast.Node) bool { _, ok := n.(*ast.ReturnStmt); return ok })
	if t == "" {
		return "return"
	}
	return t
}


// VerifyCallers: structural obligation on the SSA call graph: the callee is
// referenced (called, deferred, started as a goroutine or taken as a value)
// only from the allowed functions.
func VerifyCallers(p *Program, cr *CallersRule) (*Enc, error) {
	target := p.ByKey[cr.Callee]
	if target == nil {
		return nil, fmt.Errorf("callers: function %s not found", cr.Callee)
	}
	e := NewEnc(p, nil, &FuncContract{Key: "callers." + cr.Callee, Props: cr.Props})
	allowed := map[string]bool{}
	for _, a := range cr.Allowed {
		allowed[a] = true
	}
	var offenders []string
	for _, key := range p.sortedFuncKeys() {
		fn := p.ByKey[key]
		if !isRepoFunc(fn) || fn == target {
			continue
		}
		outer := fn
		for outer.Parent() != nil {
			outer = outer.Parent()
		}
		uses := false
		for _, b := range fn.Blocks {
			for _, in := range b.Instrs {
				for _, op := range in.Operands(nil) {
					if *op == ssa.Value(target) {
						uses = true
					}
				}
			}
		}
		if uses && !allowed[funcKey(outer)] {
			offenders = append(offenders, funcKey(outer))
		}
	}
	goal := True
	if len(offenders) > 0 {
		goal = False
	}
	o := &Obl{Name: "callers:" + cr.Callee, Kind: "callers", Func: "callers." + cr.Callee, Ord: e.tick(), Guard: True, Goal: goal, Props: cr.Props, Where: cr.Where, Enc: e}
	if len(offenders) > 0 {
		o.Extra = map[string]string{"offending_callers": strings.Join(offenders, ", ")}
	}
	e.obls = append(e.obls, o)
	return e, nil
}
