package main

import (
	"fmt"
	"go/ast"
	"go/constant"
	"go/token"
	"go/types"
	"math/big"
	"strings"

	"golang.org/x/tools/go/ssa"
)

func bigPow2(n uint) *big.Int { return new(big.Int).Lsh(big.NewInt(1), n) }

// val returns the symbolic value of an SSA value.
func (f *Frame) val(v ssa.Value) *Val {
	if r, ok := f.vals[v]; ok {
		return r
	}
	switch c := v.(type) {
	case *ssa.Const:
		return f.constVal(c)
	case *ssa.Global:
		t := c.Type().(*types.Pointer).Elem()
		key := "G$" + pkgQualifier(c.Pkg.Pkg) + "." + c.Name()
		if _, isStruct := t.Underlying().(*types.Struct); isStruct {
			// global struct variable: object with a fixed ref derived from its name
			r := f.E.declare("gref$"+key, IntS)
			f.E.addFact(True, Gt(r, IntLit(0)), "global ref")
			return &Val{K: VScalar, T: c.Type(), X: r}
		}
		return &Val{K: VAddr, T: c.Type(), Addr: &Addr{Kind: AObj, Obj: IntLit(1), Key: key, T: t}}
	case *ssa.Function:
		return &Val{K: VFunc, T: c.Type(), Fn: c}
	case *ssa.Builtin:
		return &Val{K: VFunc, T: c.Type()}
	case *ssa.FreeVar:
		for i, fv := range f.Fn.FreeVars {
			if fv == c {
				if i < len(f.freeVars) {
					return f.freeVars[i]
				}
			}
		}
		f.E.fail("unbound free variable %s in %s", c.Name(), f.Fn)
	}
	f.E.fail("no value for %s (%T) in %s", v.Name(), v, f.Fn)
	return nil
}

func (f *Frame) constVal(c *ssa.Const) *Val {
	t := c.Type()
	if c.Value == nil {
		return f.zeroVal(t)
	}
	switch u := t.Underlying().(type) {
	case *types.Basic:
		switch {
		case u.Info()&types.IsBoolean != 0:
			return &Val{K: VScalar, T: t, X: BoolLit(constant.BoolVal(c.Value))}
		case u.Info()&types.IsInteger != 0:
			bi, ok := new(big.Int).SetString(c.Value.ExactString(), 10)
			if !ok {
				f.E.fail("bad int constant %s", c.Value)
			}
			return &Val{K: VScalar, T: t, X: BigLit(bi)}
		case u.Info()&types.IsFloat != 0:
			return &Val{K: VScalar, T: t, X: realConst(c.Value)}
		case u.Info()&types.IsString != 0:
			s := constant.StringVal(c.Value)
			return f.stringConst(s, t)
		}
	}
	f.E.fail("unsupported constant %s of type %s", c, t)
	return nil
}

func realConst(v constant.Value) *Term {
	r := constant.ToFloat(v)
	num, den := constant.Num(r), constant.Denom(r)
	if num.Kind() != constant.Int || den.Kind() != constant.Int {
		// not exactly representable as a ratio; approximate through float64
		fl, _ := constant.Float64Val(r)
		return &Term{S: RealS, Name: fmt.Sprintf("%.17g", fl)}
	}
	n, _ := new(big.Int).SetString(num.ExactString(), 10)
	d, _ := new(big.Int).SetString(den.ExactString(), 10)
	if d.Cmp(big.NewInt(1)) == 0 {
		return &Term{S: RealS, I: n}
	}
	return App("/", RealS, &Term{S: RealS, I: n}, &Term{S: RealS, I: d})
}

func (f *Frame) stringConst(s string, t types.Type) *Val {
	if !f.E.Mode.Bytes {
		return &Val{K: VScalar, T: t, X: StrLit(s)}
	}
	arr := ConstArray(ArrayS(IntS, IntS), IntLit(0))
	var a *Term = arr
	for i := 0; i < len(s); i++ {
		a = Store(a, IntLit(int64(i)), IntLit(int64(s[i])))
	}
	lit := s
	return &Val{K: VBytes, T: t, Arr: a, Off: IntLit(0), Len: IntLit(int64(len(s))), Lit: &lit}
}

func (f *Frame) zeroVal(t types.Type) *Val {
	if tup, ok := t.(*types.Tuple); ok {
		v := &Val{K: VTuple, T: t}
		for i := 0; i < tup.Len(); i++ {
			v.Fields = append(v.Fields, f.zeroVal(tup.At(i).Type()))
		}
		return v
	}
	ls := leavesOf(t, f.E.Mode)
	ts := make([]*Term, len(ls))
	for i, l := range ls {
		ts[i] = zeroTerm(l)
	}
	v := valFromLeaves(t, f.E.Mode, ts)
	if v.K == VBytes {
		e := ""
		v.Lit = &e
	}
	return v
}

func (f *Frame) set(v ssa.Value, val *Val) {
	f.vals[v] = f.nameVal(val, v.Name())
}

// ---------------------------------------------------------------- memory

func (f *Frame) leafKey(a *Addr, l leaf) (string, *Sort) {
	key := a.Key + a.Path + l.path
	switch a.Kind {
	case AObj:
		return key, ArrayS(IntS, l.sort)
	case AElem:
		return key, ArrayS(IntS, ArrayS(IntS, l.sort))
	default:
		return key, l.sort
	}
}

// leafLoc: one SMT-level location of a (possibly compound) value at an address.
type leafLoc struct {
	key  string
	sort *Sort
	a    *Addr
}

// Embedded (by-value) struct fields of heap objects are modelled as inner
// objects with their own (negative) reference sub(obj, k), so that &x.inner is
// an ordinary pointer and the inner struct's fields are always the fields of
// its own type.  |sub(o,k)| = |o|*subN + k is injective.
const subN = 4096

var subKeys = map[string]int{}

func subRef(obj *Term, outer types.Type, field string) *Term {
	k := typeKey(outer) + "$" + field
	id, ok := subKeys[k]
	if !ok {
		id = len(subKeys) + 1
		if id >= subN {
			panic("too many embedded struct fields")
		}
		subKeys[k] = id
	}
	if v, ok := obj.IntVal(); ok {
		if v >= 0 {
			return IntLit(-(v*subN + int64(id)))
		}
		return IntLit(v*subN - int64(id))
	}
	return Ite(Ge(obj, IntLit(0)), Neg(Add(Mul(obj, IntLit(subN)), IntLit(int64(id)))), Sub(Mul(obj, IntLit(subN)), IntLit(int64(id))))
}

func innerStruct(t types.Type) bool {
	_, ok := t.Underlying().(*types.Struct)
	return ok && !isOpaqueStruct(t)
}

// fieldOf: address of a field of the struct at address a.
func (f *Frame) fieldOf(a *Addr, st types.Type, name string, ft types.Type) *Addr {
	if a.Kind == AObj && a.Path == "" && strings.HasPrefix(a.Key, "F$") {
		if innerStruct(ft) {
			return &Addr{Kind: AObj, Obj: subRef(a.Obj, st, name), Key: "F$" + typeKey(ft), T: ft}
		}
		return &Addr{Kind: AObj, Obj: a.Obj, Key: "F$" + typeKey(st), Path: "$" + name, T: ft}
	}
	na := *a
	na.Path = a.Path + "$" + name
	na.T = ft
	return &na
}

func (f *Frame) leafLocs(a *Addr) []leafLoc {
	if a.Kind == AObj && a.Path == "" && strings.HasPrefix(a.Key, "F$") && innerStruct(a.T) {
		st := a.T.Underlying().(*types.Struct)
		var out []leafLoc
		for i := 0; i < st.NumFields(); i++ {
			fa := f.fieldOf(a, a.T, st.Field(i).Name(), st.Field(i).Type())
			if _, isArr := fa.T.Underlying().(*types.Array); isArr {
				panic("array value type not supported: " + fa.T.String())
			}
			out = append(out, f.leafLocs(fa)...)
		}
		return out
	}
	var out []leafLoc
	for _, l := range leavesOf(a.T, f.E.Mode) {
		key, sort := f.leafKey(a, l)
		out = append(out, leafLoc{key, sort, a})
	}
	return out
}

func (f *Frame) load(a *Addr, st *State) *Val {
	if _, isArr := a.T.Underlying().(*types.Array); isArr {
		if a.Kind != AElem {
			f.E.fail("load of whole array value not supported here (%s)", a.T)
		}
		inner, _ := arrInner(a.T)
		v := &Val{K: VArr, T: a.T, Off: a.Idx}
		for _, l := range leavesOf(inner, f.E.Mode) {
			key := "M$" + typeKey(inner) + l.path
			cur := st.Get(key, ArrayS(IntS, ArrayS(IntS, l.sort)))
			f.E.noteVars(cur)
			v.Snap = append(v.Snap, Select(cur, a.Base))
		}
		return v
	}
	ls := f.leafLocs(a)
	ts := make([]*Term, len(ls))
	var bound *Term
	sameBound := len(ls) > 0
	for i, l := range ls {
		if b := st.boundOf(l.key); bound == nil {
			bound = b
		} else if !termEq(bound, b) {
			sameBound = false
		}
		cur := st.Get(l.key, l.sort)
		f.E.noteVars(cur)
		switch l.a.Kind {
		case AObj:
			ts[i] = Select(cur, l.a.Obj)
		case AElem:
			ts[i] = Select(Select(cur, l.a.Base), l.a.Idx)
		default:
			ts[i] = cur
		}
	}
	v := valFromLeaves(a.T, f.E.Mode, ts)
	if sameBound {
		v.Bound = bound
	}
	return v
}

func (f *Frame) store(a *Addr, v *Val, st *State) {
	if _, isArr := a.T.Underlying().(*types.Array); isArr {
		inner, n := arrInner(a.T)
		if a.Kind != AElem || v.K != VArr || n > 64 {
			f.E.fail("store of whole array value not supported here (%s)", a.T)
		}
		for k, l := range leavesOf(inner, f.E.Mode) {
			key := "M$" + typeKey(inner) + l.path
			sort := ArrayS(IntS, ArrayS(IntS, l.sort))
			cur := st.Get(key, sort)
			f.E.noteVars(cur)
			row := Select(cur, a.Base)
			for i := int64(0); i < n; i++ {
				row = Store(row, Add(a.Idx, IntLit(i)), Select(v.Snap[k], Add(v.Off, IntLit(i))))
			}
			st.Set(key, sort, f.E.name(Store(cur, a.Base, row), f.prefix+"s$"+key))
		}
		return
	}
	ls := f.leafLocs(a)
	var vs []*Term
	if v.K == VFunc {
		vs = []*Term{f.funcTerm(v)}
	} else if v.K == VAddr && v.Addr.Kind == AElem && v.Addr.Path == "" {
		vs = []*Term{f.elemPtr(v.Addr)}
	} else {
		vs = v.leaves()
	}
	if len(vs) != len(ls) {
		f.E.fail("store: leaf count mismatch for %s: %d vs %d (%s)", a.T, len(ls), len(vs), v)
	}
	for i, l := range ls {
		cur := st.Get(l.key, l.sort)
		f.E.noteVars(cur)
		var nt *Term
		switch l.a.Kind {
		case AObj:
			nt = Store(cur, l.a.Obj, vs[i])
		case AElem:
			nt = Store(cur, l.a.Base, Store(Select(cur, l.a.Base), l.a.Idx, vs[i]))
		default:
			nt = vs[i]
		}
		st.Set(l.key, l.sort, f.E.name(nt, f.prefix+"s$"+l.key))
	}
}

// elemPtr: a pointer to an element of a backing array, stored as a value.  It is an
// abstract reference owned by the backing array (negative, like the references of embedded
// structs: allocated exactly when the array is), not nil; the element's contents are NOT
// reachable through it (a load through such a pointer reads unconstrained fields, a store
// through it is not seen by the array) - recorded as an assumption of the function.
func (f *Frame) elemPtr(a *Addr) *Term {
	name := "elemptr$" + typeKey(a.T)
	f.E.declareFunSorted(name, []*Sort{IntS, IntS}, IntS)
	r := App(name, IntS, a.Base, a.Idx)
	f.assume(And(Lt(r, IntLit(0)), Eq(App("div", IntS, Neg(r), IntLit(subN)), a.Base)), "pointer to an array element: an abstract reference owned by the array")
	f.E.Assumes["pointers to slice/array elements stored as values are abstract references: memory accessed through them is not connected to the element (function "+funcKey(f.Fn)+")"] = true
	return r
}

func (f *Frame) funcTerm(v *Val) *Term {
	if v.X != nil {
		return v.X
	}
	if v.Fn != nil {
		c := f.E.declare("fnid$"+v.Fn.String(), IntS)
		return c
	}
	return IntLit(-1)
}

// loaded values get range facts
func (f *Frame) loadChecked(a *Addr) *Val {
	f.guardedAccess(a, false)
	v := f.load(a, f.st)
	f.assumeWF(v)
	f.assumeAllocated(v)
	return v
}

func (f *Frame) assumeAllocated(v *Val) {
	// refs observed in memory are live objects (or nil); a value read from a heap
	// key that still has its entry value was already allocated at function entry
	isAlloc := f.isAlloc
	if v.Bound != nil {
		a := v.Bound
		isAlloc = func(r *Term) *Term {
			f.E.noteVars(a)
			return Or(Eq(r, IntLit(0)), allocatedIn(a, r))
		}
	}
	var rec func(v *Val)
	rec = func(v *Val) {
		switch v.K {
		case VScalar:
			if v.T != nil {
				if _, k, ok := scalarSortOf(v.T, f.E.Mode); ok && k == "ref" && !v.X.IsLit() {
					f.assume(isAlloc(v.X), "observed ref is allocated")
				}
			}
		case VSlice:
			if !v.Base.IsLit() {
				f.assume(isAlloc(v.Base), "observed backing array is allocated")
			}
		case VStruct, VTuple:
			for _, x := range v.Fields {
				rec(x)
			}
		}
	}
	rec(v)
}

// Allocation model: objects are named by allocation order.  NEXT (state key
// allocKey, an Int) is the first unused name; an object is allocated iff
// 0 < r < NEXT.  A fresh object is r = NEXT; NEXT only grows.
const allocKey = "ALLOC"

var allocSort = IntS

func allocatedIn(next, r *Term) *Term {
	// positive refs: allocation order; negative refs: inner objects, allocated with their owner
	owner := Div(Neg(r), IntLit(subN))
	return Or(And(Lt(IntLit(0), r), Lt(r, next)), And(Lt(r, IntLit(0)), Lt(owner, next)))
}

func (f *Frame) isAlloc(r *Term) *Term {
	a := f.st.Get(allocKey, allocSort)
	f.E.noteVars(a)
	f.assume(Ge(a, IntLit(1)), "allocation counter is positive")
	return Or(Eq(r, IntLit(0)), allocatedIn(a, r))
}

func (f *Frame) newRef(hint string) *Term {
	r := f.fresh(hint, IntS)
	a := f.st.Get(allocKey, allocSort)
	f.E.noteVars(a)
	f.assume(And(Ge(a, IntLit(1)), Eq(r, a)), "fresh allocation")
	f.st = f.st.Clone()
	f.st.Set(allocKey, allocSort, f.E.name(Add(r, IntLit(1)), f.prefix+"alloc"))
	return r
}

// ---------------------------------------------------------------- arithmetic

func (f *Frame) wrap(t *Term, ty types.Type) *Term {
	bits, signed, ok := intBits(ty)
	if !ok {
		return t
	}
	if t.IsLit() {
		return f.wrapForce(t, bits, signed)
	}
	if bits < 64 && !signed {
		return f.wrapForce(t, bits, signed)
	}
	if bits < 64 && signed {
		return t // small signed: treated as mathematical (listed as assumption)
	}
	if f.E.Arith == "wrapall" || f.E.Arith == "wrap" && !signed {
		// "wrap": unsigned 64-bit arithmetic is modular; signed 64-bit (indices,
		// lengths) stays mathematical.  "wrapall": both.
		return f.wrapForce(t, bits, signed)
	}
	return t
}

func (f *Frame) wrapForce(t *Term, bits uint, signed bool) *Term {
	m := BigLit(bigPow2(bits))
	if !signed {
		return Mod(t, m)
	}
	h := BigLit(bigPow2(bits - 1))
	// ((t + 2^(b-1)) mod 2^b) - 2^(b-1)
	return Sub(Mod(Add(t, h), m), h)
}

func (f *Frame) binop(in *ssa.BinOp) *Val {
	x, y := f.val(in.X), f.val(in.Y)
	t := in.Type()
	xt := in.X.Type()
	mk := func(tm *Term) *Val { return &Val{K: VScalar, T: t, X: tm} }
	switch in.Op {
	case token.EQL, token.NEQ:
		eq := f.valEq(x, y, xt)
		if in.Op == token.NEQ {
			eq = Not(eq)
		}
		return mk(eq)
	}
	if x.K == VBytes || y.K == VBytes {
		if in.Op == token.ADD && x.K == VBytes && y.K == VBytes {
			// concatenation in bytes mode: contents abstract, length exact
			r := f.freshVal(in.Type(), in.Name())
			f.assume(Eq(r.Len, Add(x.Len, y.Len)), "len(a+b) == len(a)+len(b)")
			return r
		}
		f.E.fail("string operator %s not supported in bytes mode (%s)", in.Op, f.where(in.Pos()))
	}
	if x.K != VScalar || y.K != VScalar {
		f.E.fail("binop %s on non-scalar values", in.Op)
	}
	a, b := x.X, y.X
	if a.S.K == SString {
		switch in.Op {
		case token.ADD:
			if a.SLit != nil && b.SLit != nil {
				return mk(StrLit(*a.SLit + *b.SLit))
			}
			return mk(App("str.++", StringS, a, b))
		case token.LSS:
			return mk(App("str.<", BoolS, a, b))
		case token.LEQ:
			return mk(App("str.<=", BoolS, a, b))
		case token.GTR:
			return mk(App("str.<", BoolS, b, a))
		case token.GEQ:
			return mk(App("str.<=", BoolS, b, a))
		}
		f.E.fail("string operator %s", in.Op)
	}
	if a.S.K == SBool {
		switch in.Op {
		case token.AND, token.LAND:
			return mk(And(a, b))
		case token.OR, token.LOR:
			return mk(Or(a, b))
		}
	}
	switch in.Op {
	case token.LSS:
		return mk(Lt(a, b))
	case token.LEQ:
		return mk(Le(a, b))
	case token.GTR:
		return mk(Gt(a, b))
	case token.GEQ:
		return mk(Ge(a, b))
	}
	if a.S.K == SReal {
		switch in.Op {
		case token.ADD:
			return mk(App("+", RealS, a, b))
		case token.SUB:
			return mk(App("-", RealS, a, b))
		case token.MUL:
			return mk(App("*", RealS, a, b))
		case token.QUO:
			f.E.Assumes["floating point arithmetic is treated as exact real arithmetic (no rounding, NaN or infinities)"] = true
			return mk(App("/", RealS, a, b))
		}
		f.E.fail("float operator %s", in.Op)
	}
	bits, signed, _ := intBits(t)
	checked := f.E.Arith == "checked" && bits == 64
	ovf := func(r *Term) {
		if checked {
			lo, hi, _ := intRange(t)
			f.E.addObl("overflow", f.E.P.exprTextAt(in.Pos(), isExprNode), f.curGuard, And(Le(lo, r), Le(r, hi)), f.where(in.Pos()), f.props())
		}
	}
	switch in.Op {
	case token.ADD:
		r := Add(a, b)
		ovf(r)
		return mk(f.wrap(r, t))
	case token.SUB:
		r := Sub(a, b)
		ovf(r)
		return mk(f.wrap(r, t))
	case token.MUL:
		r := Mul(a, b)
		ovf(r)
		return mk(f.wrap(r, t))
	case token.QUO, token.REM:
		if f.nopanic {
			f.E.addObl("nopanic.div", f.E.P.exprTextAt(in.Pos(), isExprNode), f.curGuard, Neq(b, IntLit(0)), f.where(in.Pos()), f.props())
		} else {
			f.assume(Neq(b, IntLit(0)), "division does not panic")
		}
		// Go truncates toward zero
		var q *Term
		if !signed {
			q = Div(a, b)
			if in.Op == token.REM {
				return mk(Mod(a, b))
			}
			return mk(q)
		}
		if av, ok := a.IntVal(); ok {
			if bv, ok2 := b.IntVal(); ok2 && bv != 0 {
				if in.Op == token.QUO {
					return mk(IntLit(av / bv))
				}
				return mk(IntLit(av % bv))
			}
		}
		// truncated division from euclidean: sign adjustments
		absb := Ite(Ge(b, IntLit(0)), b, Neg(b))
		qq := Ite(Ge(a, IntLit(0)), Div(a, b), Neg(Div(Neg(a), b)))
		_ = absb
		if in.Op == token.QUO {
			return mk(f.wrap(qq, t))
		}
		return mk(Sub(a, Mul(b, qq)))
	case token.SHL:
		if k, ok := b.IntVal(); ok && k >= 0 && k < 64 {
			r := Mul(a, BigLit(bigPow2(uint(k))))
			if bits == 64 && f.E.Arith != "wrap" {
				// mathematical unless wrap mode
				return mk(r)
			}
			if signed && bits < 64 {
				return mk(f.wrapForce(r, bits, true))
			}
			return mk(f.wrap(r, t))
		}
		return mk(f.uninterp("shl", t, a, b))
	case token.SHR:
		if k, ok := b.IntVal(); ok && k >= 0 && k < 64 {
			return mk(Div(a, BigLit(bigPow2(uint(k)))))
		}
		return mk(f.uninterp("shr", t, a, b))
	case token.AND:
		if m, ok := b.IntVal(); ok && m >= 0 && (m+1)&m == 0 {
			return mk(Mod(a, IntLit(m+1)))
		}
		if m, ok := a.IntVal(); ok && m >= 0 && (m+1)&m == 0 {
			return mk(Mod(b, IntLit(m+1)))
		}
		r := f.uninterp("and", t, a, b)
		if !signed {
			f.assume(And(Le(r, a), Le(r, b)), "x&y <= x,y (unsigned)")
		}
		return mk(r)
	case token.OR, token.XOR, token.AND_NOT:
		return mk(f.uninterp(map[token.Token]string{token.OR: "or", token.XOR: "xor", token.AND_NOT: "andnot"}[in.Op], t, a, b))
	}
	f.E.fail("unsupported binary operator %s", in.Op)
	return nil
}

// uninterp gives an uninterpreted (but functional) result with the type's range.
func (f *Frame) uninterp(op string, t types.Type, args ...*Term) *Term {
	name := "bv$" + op + "$" + typeKey(t)
	f.E.declareFun(name, len(args))
	r := App(name, IntS, args...)
	if lo, hi, ok := intRange(t); ok {
		f.assume(And(Le(lo, r), Le(r, hi)), "range of "+op)
	}
	return r
}

func isExprNode(n ast.Node) bool { _, ok := n.(ast.Expr); return ok }

func (f *Frame) props() []string {
	if f.C != nil && len(f.C.Props) > 0 {
		return f.C.Props
	}
	if f.E.TopC != nil {
		return f.E.TopC.Props
	}
	return nil
}

// valEq: Go equality
func (f *Frame) valEq(x, y *Val, t types.Type) *Term {
	switch {
	case x.K == VScalar && y.K == VScalar:
		if x.X.S.K != y.X.S.K {
			f.E.fail("comparison of different sorts")
		}
		return Eq(x.X, y.X)
	case x.K == VIface || y.K == VIface:
		if x.K == VIface && y.K == VIface {
			return And(Eq(x.Tag, y.Tag), Eq(x.X, y.X))
		}
	case x.K == VSlice && y.K == VSlice:
		// only comparison with nil is legal
		if isZero(y.Base) {
			return Eq(x.Base, IntLit(0))
		}
		if isZero(x.Base) {
			return Eq(y.Base, IntLit(0))
		}
	case x.K == VTuple && y.K == VTuple && len(x.Fields) == len(y.Fields):
		var cs []*Term
		for i := range x.Fields {
			cs = append(cs, f.valEq(x.Fields[i], y.Fields[i], nil))
		}
		return And(cs...)
	case x.K == VStruct && y.K == VStruct:
		var cs []*Term
		for i := range x.Fields {
			var ft types.Type
			if t != nil {
				if st, ok := t.Underlying().(*types.Struct); ok && i < st.NumFields() {
					ft = st.Field(i).Type()
				}
			}
			cs = append(cs, f.valEq(x.Fields[i], y.Fields[i], ft))
		}
		return And(cs...)
	case x.K == VFunc || y.K == VFunc:
		// comparison with nil
		other := y
		fn := x
		if x.K != VFunc {
			other, fn = x, y
		}
		if fn.Fn != nil {
			return False
		}
		if other.K == VFunc && other.X == nil && other.Fn == nil {
			return Eq(f.funcTerm(fn), IntLit(0))
		}
		if other.K == VScalar {
			return Eq(f.funcTerm(fn), other.X)
		}
		return Eq(f.funcTerm(fn), f.funcTerm(other))
	case x.K == VBytes && y.K == VBytes:
		// string equality in bytes mode: decidable only for literals of equal text / lengths
		if x.Lit != nil && y.Lit != nil {
			return BoolLit(*x.Lit == *y.Lit)
		}
		lit, other := x, y
		if y.Lit != nil {
			lit, other = y, x
		}
		if lit.Lit != nil {
			cs := []*Term{Eq(other.Len, IntLit(int64(len(*lit.Lit))))}
			for i := 0; i < len(*lit.Lit); i++ {
				cs = append(cs, Eq(Select(other.Arr, Add(other.Off, IntLit(int64(i)))), IntLit(int64((*lit.Lit)[i]))))
			}
			return And(cs...)
		}
		f.E.declareFunSorted("bytesEq", []*Sort{ArrayS(IntS, IntS), IntS, IntS, ArrayS(IntS, IntS), IntS, IntS}, BoolS)
		return App("bytesEq", BoolS, x.Arr, x.Off, x.Len, y.Arr, y.Off, y.Len)
	case x.K == VAddr && y.K == VAddr:
		if x.Addr.Kind == y.Addr.Kind && x.Addr.Key == y.Addr.Key && x.Addr.Path == y.Addr.Path {
			if x.Addr.Kind == AObj {
				return Eq(x.Addr.Obj, y.Addr.Obj)
			}
			if x.Addr.Kind == AElem {
				return And(Eq(x.Addr.Base, y.Addr.Base), Eq(x.Addr.Idx, y.Addr.Idx))
			}
		}
	}
	// address vs nil pointer constant
	if x.K == VAddr && y.K == VScalar && isZero(y.X) || y.K == VAddr && x.K == VScalar && isZero(x.X) {
		return False
	}
	f.E.fail("unsupported equality between %s and %s", x, y)
	return nil
}

// ---------------------------------------------------------------- instructions

func (f *Frame) instr(in ssa.Instruction) {
	defer func() {
		if r := recover(); r != nil {
			if ee, ok := r.(encError); ok {
				if !strings.Contains(ee.msg, " @") {
					ee.msg += " @" + f.where(in.Pos()) + " [" + in.String() + "]"
				}
				panic(ee)
			}
			panic(r)
		}
	}()
	switch in := in.(type) {
	case *ssa.DebugRef:
	case *ssa.Alloc:
		f.alloc(in)
	case *ssa.FieldAddr:
		f.vals[in] = f.fieldAddr(f.val(in.X), in.X.Type(), in.Field, in.Pos())
	case *ssa.Field:
		x := f.val(in.X)
		if x.K != VStruct {
			f.E.fail("field of non-struct value")
		}
		if isOpaqueStruct(in.X.Type()) {
			f.set(in, f.freshVal(in.Type(), in.Name()))
		} else {
			f.vals[in] = x.Fields[in.Field]
		}
	case *ssa.IndexAddr:
		f.vals[in] = f.indexAddr(in)
	case *ssa.Index:
		if b, ok := in.X.Type().Underlying().(*types.Basic); ok && b.Info()&types.IsString != 0 {
			f.stringIndex(in, in.X, in.Index)
		} else if x := f.val(in.X); x.K == VArr {
			at := in.X.Type().Underlying().(*types.Array)
			i := f.val(in.Index).X
			f.bounds("nopanic.index", in.Pos(), And(Ge(i, IntLit(0)), Lt(i, IntLit(at.Len()))))
			inner, stride := arrInner(at.Elem())
			if _, nested := at.Elem().Underlying().(*types.Array); nested {
				f.vals[in] = &Val{K: VArr, T: in.Type(), Snap: x.Snap, Off: Add(x.Off, Mul(i, IntLit(stride)))}
			} else {
				ts := make([]*Term, len(x.Snap))
				for k := range x.Snap {
					ts[k] = Select(x.Snap[k], Add(x.Off, i))
				}
				v := valFromLeaves(inner, f.E.Mode, ts)
				f.set(in, v)
				f.assumeWF(f.vals[in])
				f.assumeAllocated(f.vals[in])
			}
		} else {
			f.E.fail("array value index not supported")
		}
	case *ssa.Lookup:
		f.lookup(in)
	case *ssa.UnOp:
		f.unop(in)
	case *ssa.BinOp:
		f.set(in, f.binop(in))
	case *ssa.Store:
		a := f.val(in.Addr)
		v := f.val(in.Val)
		addr := f.addrOf(a, in.Addr.Type(), in.Pos())
		f.guardedAccess(addr, true)
		f.st = f.st.Clone()
		f.store(addr, f.coerce(v, addr.T), f.st)
	case *ssa.Convert:
		f.convert(in)
	case *ssa.ChangeType:
		x := f.val(in.X)
		c := *x
		c.T = in.Type()
		f.vals[in] = &c
	case *ssa.ChangeInterface:
		f.vals[in] = f.val(in.X)
	case *ssa.MakeInterface:
		f.makeInterface(in)
	case *ssa.TypeAssert:
		f.typeAssert(in)
	case *ssa.Extract:
		t := f.val(in.Tuple)
		if t.K != VTuple {
			f.E.fail("extract from non-tuple")
		}
		f.vals[in] = t.Fields[in.Index]
	case *ssa.Slice:
		f.sliceOp(in)
	case *ssa.MakeSlice:
		n := f.val(in.Len).X
		c := f.val(in.Cap).X
		base := f.newRef("mk_" + in.Name())
		if f.nopanic {
			f.E.addObl("nopanic.makeslice", "", f.curGuard, And(Ge(n, IntLit(0)), Le(n, c)), f.where(in.Pos()), f.props())
		} else {
			f.assume(And(Ge(n, IntLit(0)), Le(n, c)), "make does not panic")
		}
		et := in.Type().Underlying().(*types.Slice).Elem()
		f.zeroBacking(base, et)
		f.set(in, &Val{K: VSlice, T: in.Type(), Base: base, Off: IntLit(0), Len: n, Cap: c})
	case *ssa.MakeMap:
		r := f.newRef("map_" + in.Name())
		f.mapInitEmpty(r, in.Type())
		f.set(in, &Val{K: VScalar, T: in.Type(), X: r})
	case *ssa.MakeChan:
		r := f.newRef("chan_" + in.Name())
		f.st = f.st.Clone()
		cl := f.st.Get("closed", ArrayS(IntS, BoolS))
		f.E.noteVars(cl)
		f.st.Set("closed", ArrayS(IntS, BoolS), f.E.name(Store(cl, r, False), f.prefix+"closed"))
		f.set(in, &Val{K: VScalar, T: in.Type(), X: r})
	case *ssa.MakeClosure:
		v := &Val{K: VFunc, T: in.Type(), Fn: in.Fn.(*ssa.Function)}
		for _, b := range in.Bindings {
			v.Bind = append(v.Bind, f.val(b))
		}
		f.vals[in] = v
	case *ssa.MapUpdate:
		f.mapUpdate(in)
	case *ssa.Range:
		f.rangeInit(in)
	case *ssa.Next:
		f.rangeNext(in)
	case *ssa.Call:
		f.call(in)
	case *ssa.Go:
		f.goStmt(in)
	case *ssa.Defer:
		f.deferStmt(in)
	case *ssa.RunDefers:
		f.runDefers(in)
	case *ssa.Send:
		// abstract event
	case *ssa.Select:
		f.E.fail("select is outside the supported subset")
	case *ssa.Return:
		var rs []*Val
		for _, r := range in.Results {
			rs = append(rs, f.val(r))
		}
		f.exits = append(f.exits, exitPoint{guard: f.curGuard, state: f.st, results: rs, pos: in.Pos()})
	case *ssa.If, *ssa.Jump:
	case *ssa.Panic:
		if f.nopanic {
			f.E.addObl("nopanic.explicit", f.E.P.exprTextAt(in.Pos(), isExprNode), f.curGuard, False, f.where(in.Pos()), f.props())
		}
	default:
		f.E.fail("unsupported instruction %T", in)
	}
}

func (f *Frame) coerce(v *Val, t types.Type) *Val { return v }

func (f *Frame) alloc(in *ssa.Alloc) {
	t := in.Type().(*types.Pointer).Elem()
	switch u := t.Underlying().(type) {
	case *types.Struct:
		r := f.newRef("new_" + in.Name())
		if !isOpaqueStruct(t) {
			a := &Addr{Kind: AObj, Obj: r, Key: "F$" + typeKey(t), T: t}
			f.st = f.st.Clone()
			f.store(a, f.zeroVal(t), f.st)
		}
		f.vals[in] = &Val{K: VScalar, T: in.Type(), X: r}
		return
	case *types.Array:
		base := f.newRef("arr_" + in.Name())
		inner, _ := arrInner(t)
		f.zeroBacking(base, inner)
		f.vals[in] = &Val{K: VAddr, T: in.Type(), Addr: &Addr{Kind: AElem, Base: base, Idx: IntLit(0), Key: "M$" + typeKey(inner), T: t, ArrLen: u.Len()}}
		return
	}
	if in.Heap && f.nonRetainedLocal(in) {
		// go/ssa marks the cell as escaping only because its address is handed to a function
		// outside the repository (json.Unmarshal(data, &x)), outside any loop: such a callee
		// writes the pointee during the call and does not keep the pointer (listed as an
		// assumption), so the cell stays private to this frame
		f.E.Assumes["a function outside the repository that is handed the address of a local variable (e.g. encoding/json.Unmarshal) writes it during the call only and does not retain the pointer"] = true
	} else if in.Heap {
		// escaping cell: its own object
		r := f.newRef("cell_" + in.Name())
		a := &Addr{Kind: AObj, Obj: r, Key: "C$" + typeKey(t), T: t}
		f.st = f.st.Clone()
		f.store(a, f.zeroVal(t), f.st)
		f.vals[in] = &Val{K: VAddr, T: in.Type(), Addr: a}
		return
	}
	name := in.Comment
	if name == "" {
		name = in.Name()
	}
	a := &Addr{Kind: ALocal, Key: "L$" + f.prefix + in.Name() + "." + name, T: t}
	f.st = f.st.Clone()
	f.store(a, f.zeroVal(t), f.st)
	f.vals[in] = &Val{K: VAddr, T: in.Type(), Addr: a}
}

func (f *Frame) zeroBacking(base *Term, et types.Type) {
	f.st = f.st.Clone()
	for _, l := range leavesOf(et, f.E.Mode) {
		key := "M$" + typeKey(et) + l.path
		sort := ArrayS(IntS, ArrayS(IntS, l.sort))
		cur := f.st.Get(key, sort)
		f.E.noteVars(cur)
		f.st.Set(key, sort, f.E.name(Store(cur, base, ConstArray(ArrayS(IntS, l.sort), zeroTerm(l))), f.prefix+"z$"+key))
	}
}

// addrOf turns a pointer value into an address.
func (f *Frame) addrOf(p *Val, pt types.Type, pos token.Pos) *Addr {
	if p.K == VAddr {
		return p.Addr
	}
	if p.K == VScalar {
		et := pt.Underlying().(*types.Pointer).Elem()
		if _, ok := et.Underlying().(*types.Struct); ok {
			f.nonNil(p.X, pos)
			return &Addr{Kind: AObj, Obj: p.X, Key: "F$" + typeKey(et), T: et}
		}
		// pointer to a non-struct cell
		f.nonNil(p.X, pos)
		return &Addr{Kind: AObj, Obj: p.X, Key: "C$" + typeKey(et), T: et}
	}
	f.E.fail("cannot take address from %s", p)
	return nil
}

func (f *Frame) nonNil(r *Term, pos token.Pos) {
	if r.IsLit() {
		if isZero(r) && f.nopanic {
			f.E.addObl("nopanic.nil", f.E.P.exprTextAt(pos, isExprNode), f.curGuard, False, f.where(pos), f.props())
		}
		return
	}
	if f.nopanic {
		f.E.addObl("nopanic.nil", f.E.P.exprTextAt(pos, isExprNode), f.curGuard, Neq(r, IntLit(0)), f.where(pos), f.props())
	}
	f.assume(Neq(r, IntLit(0)), "dereferenced pointer is not nil (execution continues only then)")
}

func (f *Frame) fieldAddr(x *Val, xt types.Type, field int, pos token.Pos) *Val {
	st := xt.Underlying().(*types.Pointer).Elem()
	su := st.Underlying().(*types.Struct)
	fld := su.Field(field)
	base := f.addrOf(x, xt, pos)
	na := f.fieldOf(base, st, fld.Name(), fld.Type())
	if innerStruct(fld.Type()) && na.Kind == AObj && na.Path == "" {
		// pointer to an embedded struct: an ordinary reference to the inner object
		return &Val{K: VScalar, T: types.NewPointer(fld.Type()), X: na.Obj}
	}
	return &Val{K: VAddr, T: types.NewPointer(fld.Type()), Addr: na}
}

func (f *Frame) bounds(kind string, pos token.Pos, cond *Term) {
	if f.nopanic {
		f.E.addObl(kind, f.E.P.exprTextAt(pos, isExprNode), f.curGuard, cond, f.where(pos), f.props())
	}
	f.assume(cond, "index in range (execution continues only then)")
}

func (f *Frame) indexAddr(in *ssa.IndexAddr) *Val {
	x := f.val(in.X)
	i := f.val(in.Index).X
	switch x.K {
	case VSlice:
		et := in.X.Type().Underlying().(*types.Slice).Elem()
		f.bounds("nopanic.index", in.Pos(), And(Ge(i, IntLit(0)), Lt(i, x.Len)))
		return &Val{K: VAddr, T: in.Type(), Addr: &Addr{Kind: AElem, Base: x.Base, Idx: Add(x.Off, i), Key: "M$" + typeKey(et), T: et}}
	case VAddr:
		if x.Addr.Kind == AElem && x.Addr.ArrLen > 0 || x.Addr.ArrLen == 0 && isArrayPtr(in.X.Type()) {
			at := in.X.Type().Underlying().(*types.Pointer).Elem().Underlying().(*types.Array)
			f.bounds("nopanic.index", in.Pos(), And(Ge(i, IntLit(0)), Lt(i, IntLit(at.Len()))))
			if x.Addr.Kind != AElem {
				f.E.fail("array inside struct not supported")
			}
			if ea, nested := at.Elem().Underlying().(*types.Array); nested {
				// nested arrays are linearised in the backing array of the innermost element type
				inner, stride := arrInner(at.Elem())
				return &Val{K: VAddr, T: in.Type(), Addr: &Addr{Kind: AElem, Base: x.Addr.Base, Idx: Add(x.Addr.Idx, Mul(i, IntLit(stride))), Key: "M$" + typeKey(inner), T: at.Elem(), ArrLen: ea.Len()}}
			}
			return &Val{K: VAddr, T: in.Type(), Addr: &Addr{Kind: AElem, Base: x.Addr.Base, Idx: Add(x.Addr.Idx, i), Key: "M$" + typeKey(at.Elem()), T: at.Elem()}}
		}
	}
	f.E.fail("unsupported IndexAddr base %s", x)
	return nil
}

func isArrayPtr(t types.Type) bool {
	p, ok := t.Underlying().(*types.Pointer)
	if !ok {
		return false
	}
	_, ok = p.Elem().Underlying().(*types.Array)
	return ok
}

func (f *Frame) byteAt(s *Val, i *Term) *Term {
	if s.K == VBytes {
		return Select(s.Arr, Add(s.Off, i))
	}
	return App("str.to_code", IntS, App("str.at", StringS, s.X, i))
}

func (f *Frame) strLen(s *Val) *Term {
	if s.K == VBytes {
		return s.Len
	}
	if s.X.SLit != nil {
		return IntLit(int64(len(*s.X.SLit)))
	}
	return App("str.len", IntS, s.X)
}

func (f *Frame) lookup(in *ssa.Lookup) {
	x := f.val(in.X)
	if _, ok := in.X.Type().Underlying().(*types.Map); ok {
		f.mapLookup(in, x)
		return
	}
	f.stringIndex(in, in.X, in.Index)
}

func (f *Frame) stringIndex(in ssa.Value, xv, iv ssa.Value) {
	x := f.val(xv)
	i := f.val(iv).X
	f.bounds("nopanic.index", in.Pos(), And(Ge(i, IntLit(0)), Lt(i, f.strLen(x))))
	b := f.byteAt(x, i)
	v := &Val{K: VScalar, T: in.Type(), X: b}
	f.set(in, v)
	f.assume(And(Ge(f.vals[in].X, IntLit(0)), Le(f.vals[in].X, IntLit(255))), "byte range")
}

func (f *Frame) unop(in *ssa.UnOp) {
	x := f.val(in.X)
	switch in.Op {
	case token.MUL:
		a := f.addrOf(x, in.X.Type(), in.Pos())
		v := f.loadChecked(a)
		f.set(in, v)
	case token.NOT:
		f.set(in, &Val{K: VScalar, T: in.Type(), X: Not(x.X)})
	case token.SUB:
		if x.X.S.K == SReal {
			f.set(in, &Val{K: VScalar, T: in.Type(), X: App("-", RealS, x.X)})
		} else {
			if bits, signed, ok := intBits(in.Type()); ok && f.E.Arith == "wrap" && signed && bits == 64 && !x.X.IsLit() {
				// "arith wrap": binary signed 64-bit arithmetic (indices, lengths) stays mathematical, but
				// the negation of a signed 64-bit value is modular (-MinInt64 == MinInt64)
				f.set(in, &Val{K: VScalar, T: in.Type(), X: f.wrapForce(Neg(x.X), bits, signed)})
			} else {
				f.set(in, &Val{K: VScalar, T: in.Type(), X: f.wrap(Neg(x.X), in.Type())})
			}
		}
	case token.XOR:
		bits, signed, _ := intBits(in.Type())
		if signed {
			f.set(in, &Val{K: VScalar, T: in.Type(), X: Sub(Neg(x.X), IntLit(1))})
		} else {
			f.set(in, &Val{K: VScalar, T: in.Type(), X: Sub(Sub(BigLit(bigPow2(bits)), IntLit(1)), x.X)})
		}
	case token.ARROW:
		t := in.Type()
		if in.CommaOk {
			et := t.(*types.Tuple).At(0).Type()
			f.vals[in] = &Val{K: VTuple, T: t, Fields: []*Val{f.freshVal(et, in.Name()), {K: VScalar, T: types.Typ[types.Bool], X: f.fresh(in.Name()+".ok", BoolS)}}}
		} else {
			f.vals[in] = f.freshVal(t, in.Name())
		}
	default:
		f.E.fail("unsupported unary operator %s", in.Op)
	}
}

func (f *Frame) convert(in *ssa.Convert) {
	x := f.val(in.X)
	from, to := in.X.Type().Underlying(), in.Type().Underlying()
	fb, fok := from.(*types.Basic)
	tb, tok := to.(*types.Basic)
	switch {
	case fok && tok && fb.Info()&types.IsInteger != 0 && tb.Info()&types.IsInteger != 0:
		bits, signed, _ := intBits(to)
		fbits, fsigned, _ := intBits(from)
		t := x.X
		// widening conversions that preserve the value need no wrap
		if !(fbits < bits && (signed || !fsigned) || fbits == bits && signed == fsigned) {
			if bits == 64 && f.E.Arith != "wrap" && !t.IsLit() {
				// 64-bit reinterpretation: exact
				t = f.wrapForce(t, bits, signed)
			} else {
				t = f.wrapForce(t, bits, signed)
			}
		}
		f.set(in, &Val{K: VScalar, T: in.Type(), X: t})
	case fok && tok && fb.Info()&types.IsInteger != 0 && tb.Info()&types.IsFloat != 0:
		f.set(in, &Val{K: VScalar, T: in.Type(), X: toReal(x.X)})
	case fok && tok && fb.Info()&types.IsFloat != 0 && tb.Info()&types.IsFloat != 0:
		f.set(in, &Val{K: VScalar, T: in.Type(), X: x.X})
	case fok && tok && fb.Info()&types.IsFloat != 0 && tb.Info()&types.IsInteger != 0:
		f.E.Assumes["float to integer conversion is modelled as truncation of a real number (no range check)"] = true
		tr := Ite(App(">=", BoolS, x.X, &Term{S: RealS, Name: "0.0"}), App("to_int", IntS, x.X), Neg(App("to_int", IntS, App("-", RealS, x.X))))
		f.set(in, &Val{K: VScalar, T: in.Type(), X: tr})
	case tok && tb.Info()&types.IsString != 0:
		// string(bytes) / string(rune)
		if x.K == VSlice {
			if f.E.Mode.Bytes {
				arr := Select(f.st.Get("M$byte", ArrayS(IntS, ArrayS(IntS, IntS))), x.Base)
				f.E.noteVars(arr)
				v := &Val{K: VBytes, T: in.Type(), Arr: arr, Off: x.Off, Len: x.Len}
				if len(x.Ghost) > 0 {
					v.Ghost = x.Ghost
				}
				f.set(in, v)
			} else {
				r := f.freshVal(in.Type(), in.Name())
				f.assume(Eq(App("str.len", IntS, r.X), x.Len), "len(string(b)) == len(b)")
				f.vals[in] = r
			}
			return
		}
		if fok && fb.Info()&types.IsString != 0 {
			c := *x
			c.T = in.Type()
			f.vals[in] = &c
			return
		}
		f.vals[in] = f.freshVal(in.Type(), in.Name())
	case fok && fb.Info()&types.IsString != 0:
		// []byte(s) / []rune(s)
		if sl, ok := to.(*types.Slice); ok {
			if b, ok := sl.Elem().Underlying().(*types.Basic); ok && b.Kind() == types.Uint8 && f.E.Mode.Bytes && x.K == VBytes {
				base := f.newRef("bytes_" + in.Name())
				f.st = f.st.Clone()
				key, sort := "M$byte", ArrayS(IntS, ArrayS(IntS, IntS))
				cur := f.st.Get(key, sort)
				f.E.noteVars(cur)
				f.st.Set(key, sort, f.E.name(Store(cur, base, x.Arr), f.prefix+"s$M$byte"))
				f.set(in, &Val{K: VSlice, T: in.Type(), Base: base, Off: x.Off, Len: x.Len, Cap: x.Len})
				return
			}
			base := f.newRef("conv_" + in.Name())
			n := f.fresh(in.Name()+".len", IntS)
			f.assume(Ge(n, IntLit(0)), "len")
			if b, ok := sl.Elem().Underlying().(*types.Basic); ok && b.Kind() == types.Uint8 {
				f.assume(Eq(n, f.strLen(x)), "len([]byte(s)) == len(s)")
			}
			f.set(in, &Val{K: VSlice, T: in.Type(), Base: base, Off: IntLit(0), Len: n, Cap: n})
			return
		}
		f.E.fail("unsupported conversion from string to %s", in.Type())
	default:
		// pointer <-> unsafe.Pointer etc.
		if x.K == VScalar {
			c := *x
			c.T = in.Type()
			f.vals[in] = &c
			return
		}
		f.E.fail("unsupported conversion %s -> %s", in.X.Type(), in.Type())
	}
}

func (f *Frame) makeInterface(in *ssa.MakeInterface) {
	x := f.val(in.X)
	tag := IntLit(int64(typeTag(in.X.Type())))
	var pay *Term
	switch {
	case x.K == VScalar && x.X.S.K == SInt:
		pay = x.X
	case x.K == VScalar && x.X.S.K == SBool:
		pay = Ite(x.X, IntLit(1), IntLit(0))
	case x.K == VScalar && x.X.S.K == SString:
		f.E.declareFunSorted("box$string", []*Sort{StringS}, IntS)
		pay = App("box$string", IntS, x.X)
		// boxing is injective (interface values holding strings compare by value): ground instance
		f.E.declareFunSorted("unbox$string", []*Sort{IntS}, StringS)
		f.E.addFact(True, Eq(App("unbox$string", StringS, pay), x.X), "boxing a string is injective")
	default:
		pay = f.fresh(in.Name()+".box", IntS)
	}
	iv := &Val{K: VIface, T: in.Type(), Tag: tag, X: pay}
	if x.K == VAddr || x.K == VSlice {
		iv.Boxed = x
	} else if _, isPtr := in.X.Type().Underlying().(*types.Pointer); isPtr && x.K == VScalar {
		iv.Boxed = x
	}
	f.set(in, iv)
}

func (f *Frame) typeAssert(in *ssa.TypeAssert) {
	x := f.val(in.X)
	if x.K != VIface {
		f.E.fail("type assertion on non-interface value")
	}
	at := in.AssertedType
	var ok *Term
	var res *Val
	if _, isIface := at.Underlying().(*types.Interface); isIface {
		// assertion to interface type: succeeds iff dynamic type implements it
		var tags []*Term
		for _, name := range typeTagNamesImplementing(f.E.P, at) {
			tags = append(tags, Eq(x.Tag, IntLit(int64(name))))
		}
		if len(tags) == 0 {
			ok = f.fresh(in.Name()+".ok", BoolS)
			f.assume(Implies(ok, Neq(x.Tag, IntLit(0))), "nil interface asserts to nothing")
		} else {
			ok = Or(tags...)
		}
		res = &Val{K: VIface, T: at, Tag: x.Tag, X: x.X}
	} else {
		ok = Eq(x.Tag, IntLit(int64(typeTag(at))))
		if s, k, isScalar := scalarSortOf(at, f.E.Mode); isScalar {
			switch {
			case s.K == SInt:
				res = &Val{K: VScalar, T: at, X: x.X}
			case s.K == SBool:
				res = &Val{K: VScalar, T: at, X: Eq(x.X, IntLit(1))}
			case s.K == SString:
				f.E.declareFunSorted("box$string", []*Sort{StringS}, IntS)
				r := f.freshVal(at, in.Name())
				f.assume(Implies(ok, Eq(App("box$string", IntS, r.X), x.X)), "unboxing")
				f.E.declareFunSorted("unbox$string", []*Sort{IntS}, StringS)
				f.assume(Implies(ok, Eq(App("unbox$string", StringS, x.X), r.X)), "unboxing (boxing a string is injective)")
				res = r
			default:
				res = f.freshVal(at, in.Name())
			}
			_ = k
		} else {
			res = f.freshVal(at, in.Name())
		}
	}
	if in.CommaOk {
		okv := &Val{K: VScalar, T: types.Typ[types.Bool], X: f.E.name(ok, f.prefix+in.Name()+".ok")}
		f.vals[in] = &Val{K: VTuple, T: in.Type(), Fields: []*Val{f.nameVal(res, in.Name()), okv}}
		return
	}
	if f.nopanic {
		f.E.addObl("nopanic.assert", f.E.P.exprTextAt(in.Pos(), isExprNode), f.curGuard, ok, f.where(in.Pos()), f.props())
	} else {
		f.assume(ok, "type assertion succeeds (panic-free execution)")
	}
	f.set(in, res)
}

// all registered type tags whose type implements the interface
func typeTagNamesImplementing(p *Program, it types.Type) []int {
	iface, ok := it.Underlying().(*types.Interface)
	if !ok {
		return nil
	}
	var out []int
	for _, key := range p.sortedNamed() {
		n := p.Named[key]
		if _, isIface := n.Underlying().(*types.Interface); isIface {
			continue
		}
		if types.Implements(n, iface) {
			out = append(out, typeTag(n))
		}
		if pt := types.NewPointer(n); types.Implements(pt, iface) {
			out = append(out, typeTag(pt))
		}
	}
	return out
}

func (p *Program) sortedNamed() []string {
	if p.namedKeys == nil {
		p.namedKeys = sortedKeys(p.Named)
	}
	return p.namedKeys
}

func (f *Frame) sliceOp(in *ssa.Slice) {
	x := f.val(in.X)
	var lo, hi, max *Term
	if in.Low != nil {
		lo = f.val(in.Low).X
	} else {
		lo = IntLit(0)
	}
	if in.High != nil {
		hi = f.val(in.High).X
	}
	if in.Max != nil {
		max = f.val(in.Max).X
	}
	switch x.K {
	case VSlice:
		if hi == nil {
			hi = x.Len
		}
		capLimit := x.Cap
		if max != nil {
			f.bounds("nopanic.slice", in.Pos(), And(Le(hi, max), Le(max, x.Cap)))
			capLimit = max
		}
		f.bounds("nopanic.slice", in.Pos(), And(Le(IntLit(0), lo), Le(lo, hi), Le(hi, x.Cap)))
		v := &Val{K: VSlice, T: in.Type(), Base: x.Base, Off: Add(x.Off, lo), Len: Sub(hi, lo), Cap: Sub(capLimit, lo)}
		f.set(in, v)
	case VBytes:
		if hi == nil {
			hi = x.Len
		}
		f.bounds("nopanic.slice", in.Pos(), And(Le(IntLit(0), lo), Le(lo, hi), Le(hi, x.Len)))
		f.set(in, &Val{K: VBytes, T: in.Type(), Arr: x.Arr, Off: Add(x.Off, lo), Len: Sub(hi, lo)})
	case VScalar: // opaque string
		n := f.strLen(x)
		if hi == nil {
			hi = n
		}
		f.bounds("nopanic.slice", in.Pos(), And(Le(IntLit(0), lo), Le(lo, hi), Le(hi, n)))
		f.set(in, &Val{K: VScalar, T: in.Type(), X: App("str.substr", StringS, x.X, lo, Sub(hi, lo))})
	case VAddr:
		if x.Addr.Kind == AElem && isArrayPtr(in.X.Type()) {
			n := IntLit(x.Addr.ArrLen)
			if hi == nil {
				hi = n
			}
			capLimit := n
			if max != nil {
				capLimit = max
			}
			f.bounds("nopanic.slice", in.Pos(), And(Le(IntLit(0), lo), Le(lo, hi), Le(hi, n)))
			f.set(in, &Val{K: VSlice, T: in.Type(), Base: x.Addr.Base, Off: Add(x.Addr.Idx, lo), Len: Sub(hi, lo), Cap: Sub(capLimit, lo)})
			return
		}
		f.E.fail("unsupported slice base")
	default:
		f.E.fail("unsupported slice base %s", x)
	}
}

// nonRetainedLocal: every use of the cell's address is a load, a store INTO the cell, or an
// argument (possibly boxed into an interface) of a direct call to a function outside the
// repository that is not inside a loop.
func (f *Frame) nonRetainedLocal(in *ssa.Alloc) bool {
	refs := in.Referrers()
	if refs == nil {
		return false
	}
	external := func(user ssa.Instruction, arg ssa.Value) bool {
		c, ok := user.(*ssa.Call)
		if !ok {
			return false
		}
		callee := c.Call.StaticCallee()
		if callee == nil || c.Call.IsInvoke() {
			return false
		}
		if isRepoFunc(callee) {
			// a repository function that only forwards the argument to such a function
			ok := false
			for i, a := range c.Call.Args {
				if a == arg {
					if !paramOnlyForwarded(callee, i, 2) {
						return false
					}
					ok = true
				}
			}
			if !ok {
				return false
			}
		}
		for _, l := range f.loopList {
			if l.blocks[c.Block().Index] {
				return false
			}
		}
		return true
	}
	calls := 0
	for _, r := range *refs {
		switch u := r.(type) {
		case *ssa.Store:
			if u.Val == ssa.Value(in) {
				return false
			}
		case *ssa.UnOp, *ssa.DebugRef:
		case *ssa.MakeInterface:
			mr := u.Referrers()
			if mr == nil {
				return false
			}
			for _, r2 := range *mr {
				if _, dbg := r2.(*ssa.DebugRef); dbg {
					continue
				}
				if !external(r2, u) {
					return false
				}
				calls++
			}
		case *ssa.Call:
			if !external(u, in) {
				return false
			}
			calls++
		default:
			return false
		}
	}
	return calls > 0
}

// paramOnlyForwarded: parameter i of the repository function fn is used only as an argument of
// direct calls to functions outside the repository (or, up to the given depth, of repository
// functions that do the same).
func paramOnlyForwarded(fn *ssa.Function, i int, depth int) bool {
	if i >= len(fn.Params) || len(fn.Blocks) == 0 {
		return false
	}
	refs := fn.Params[i].Referrers()
	if refs == nil {
		return true
	}
	for _, r := range *refs {
		switch u := r.(type) {
		case *ssa.DebugRef:
		case *ssa.Call:
			callee := u.Call.StaticCallee()
			if callee == nil || u.Call.IsInvoke() {
				return false
			}
			if isRepoFunc(callee) {
				if depth == 0 {
					return false
				}
				for k, a := range u.Call.Args {
					if a == ssa.Value(fn.Params[i]) && !paramOnlyForwarded(callee, k, depth-1) {
						return false
					}
				}
			}
		default:
			return false
		}
	}
	return true
}
