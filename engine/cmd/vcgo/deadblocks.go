package main

// Audit aid: lists the basic blocks of the functions under contract that the model proves
// unreachable (guard refuted).  Expected entries are paths excluded by a precondition;
// anything else points at a modelling gap that would discharge obligations vacuously.

import (
	"fmt"
	"go/token"
	"os"
	"sort"

	"golang.org/x/tools/go/ssa"
)

func cmdDeadBlocks(args []string) {
	p, err := loadAll()
	if err != nil {
		fmt.Fprintln(os.Stderr, err)
		os.Exit(2)
	}
	scratch, _ := os.MkdirTemp("", "vcgo-dead")
	defer os.RemoveAll(scratch)
	cfg := &SolverCfg{TimeoutS: 3, Scratch: scratch, Parallel: 16}
	only := ""
	if len(args) > 0 {
		only = args[0]
	}
	if len(args) > 1 {
		os.MkdirAll(args[1], 0o755)
		cfg.Scratch, cfg.KeepFiles = args[1], true
	}
	for _, k := range p.Cs.Order {
		fc := p.Cs.Funcs[k]
		if only != "" && k != only {
			continue
		}
		if fc.Trusted || fc.IsIface || fc.Inline || p.ByKey[k] == nil || len(p.ByKey[k].Blocks) == 0 {
			continue
		}
		var e *Enc
		func() {
			defer func() { recover() }()
			e, _ = VerifyFunc(p, k)
		}()
		if e == nil || e.top == nil {
			continue
		}
		f := e.top
		var idx []int
		for bi := range f.guards {
			idx = append(idx, bi)
		}
		sort.Ints(idx)
		var covers []*Obl
		for _, bi := range idx {
			g := f.guards[bi]
			if g == nil {
				continue
			}
			covers = append(covers, &Obl{Name: fmt.Sprintf("%s/block%d", k, bi), Kind: "cover", Func: k, Ord: 1 << 30, Guard: g, Goal: False, Enc: e, Where: p.posString(firstPos(f.Fn.Blocks[bi]))})
		}
		e.obls, e.Covers = nil, covers
		solveAll(e, cfg, k)
		for _, c := range covers {
			if c.Result == "unsat" {
				fmt.Printf("DEAD %s  %s\n", c.Name, c.Where)
			}
		}
	}
}

func firstPos(b *ssa.BasicBlock) token.Pos {
	for _, in := range b.Instrs {
		if p := in.Pos(); p.IsValid() {
			return p
		}
	}
	return token.NoPos
}
