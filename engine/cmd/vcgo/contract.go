package main

// Contract files: comment-only Go files in /repo (build tag verif) and
// /verif/spec/*.contracts.  Every contract line starts with "//@".

import (
	"fmt"
	"math/big"
	"os"
	"strconv"
	"strings"
	"unicode"
)

type CExpr struct {
	K    string // id int str bin un call sel idx slice quant
	Name string
	Int  *big.Int
	Str  string
	Op   string
	A, B *CExpr
	C    *CExpr
	Args []*CExpr
	Vars []CVar
	Pos  string
}

type CVar struct {
	Name string
	Type string // "" = int
}

type Clause struct {
	Kind  string // requires ensures invariant decreases modifies assume ...
	Props []string
	Loop  int
	Text  string
	E     *CExpr
	Where string // file:line
	Label string
}

type FuncContract struct {
	Key      string // core.Recv.Name
	Props    []string
	Mode     string // "", bytes
	Arith    string // math (default) checked wrap
	NoPanic  bool
	Trusted  bool // body not verified, contract assumed at call sites
	Pure     bool // no effect on modelled heap
	Inline   bool
	Requires []*Clause
	Ensures  []*Clause
	Modifies []*Clause
	LoopInv  map[int][]*Clause
	LoopDec  map[int][]*Clause
	LoopMod  map[int][]*Clause
	Monitor  []*Clause
	Uses     []string
	Apply    []string
	Critical []*Clause
	LoopApply map[int][]*Clause
	Ghost    []*Clause
	Effects  []*Clause // ghost effects: "effect run(self.metadata)" etc.
	Assume   []*Clause
	Opts     map[string]string
	Lets     map[string]*CExpr
	LetOrder []string
	Probes   []*Clause
	CEHints  []*Clause // "cehint <expr>": soft constraints tried first in the counterexample search (never in a proof)
	Where    string
	IsIface  bool
	Params   []string // optional explicit parameter names (for external functions)
}

type TypeContract struct {
	Key        string
	GuardedBy  map[string][]string // mutex field -> fields
	Invariants []*Clause
	Where      string
	Props      []string
}

type Lemma struct {
	Name   string
	Props  []string
	E      *CExpr
	Text   string
	Axiom  bool
	Uses   []string
	Apply  []string
	Where  string
	Vars   []CVar
	Expect string // "" (must hold) or "fail" is not allowed; kept for known-finding bookkeeping
}

type CallersRule struct {
	Callee  string
	Props   []string
	Allowed []string
	Where   string
}

type Contracts struct {
	Callers []*CallersRule
	Funcs  map[string]*FuncContract
	Types  map[string]*TypeContract
	Lemmas []*Lemma
	Order  []string
}

func NewContracts() *Contracts {
	return &Contracts{Funcs: map[string]*FuncContract{}, Types: map[string]*TypeContract{}}
}

var clauseKeywords = map[string]bool{"requires": true, "ensures": true, "modifies": true, "loop": true, "mode": true, "arith": true,
	"nopanic": true, "monitor": true, "trusted": true, "pure": true, "property": true, "invariant": true, "guarded_by": true,
	"uses": true, "apply": true, "critical": true, "ghost": true, "effect": true, "assume": true, "inline": true, "opt": true, "params": true, "let": true, "probe": true, "cehint": true}

func (cs *Contracts) LoadFile(path string) error {
	data, err := os.ReadFile(path)
	if err != nil {
		return err
	}
	var lines []string
	var wheres []string
	for i, l := range strings.Split(string(data), "\n") {
		t := strings.TrimSpace(l)
		if !strings.HasPrefix(t, "//@") {
			continue
		}
		t = strings.TrimSpace(t[3:])
		if t == "" || strings.HasPrefix(t, "#") {
			continue
		}
		// strip trailing comment " // ..."
		if k := strings.Index(t, " // "); k >= 0 {
			t = strings.TrimSpace(t[:k])
		}
		lines = append(lines, t)
		wheres = append(wheres, fmt.Sprintf("%s:%d", path, i+1))
	}
	// join continuation lines
	var items []string
	var iw []string
	for i, l := range lines {
		first := l
		if k := strings.IndexAny(l, " \t("); k >= 0 {
			first = l[:k]
		}
		isHead := first == "func" || first == "type" || first == "lemma" || first == "axiom" || first == "iface" || first == "callers"
		if isHead || clauseKeywords[first] || len(items) == 0 {
			items = append(items, l)
			iw = append(iw, wheres[i])
		} else {
			items[len(items)-1] += " " + l
		}
	}
	var curF *FuncContract
	var curT *TypeContract
	for i, it := range items {
		where := iw[i]
		word, rest := splitWord(it)
		switch word {
		case "func", "iface":
			curT = nil
			name, r2 := splitWord(rest)
			var params []string
			if k := strings.Index(name, "("); k >= 0 {
				// name(params) possibly with spaces: re-split on the full rest
				full := rest
				k = strings.Index(full, "(")
				e := strings.Index(full, ")")
				if e < 0 {
					return fmt.Errorf("%s: bad func header", where)
				}
				name = strings.TrimSpace(full[:k])
				for _, p := range strings.Split(full[k+1:e], ",") {
					p = strings.TrimSpace(p)
					if p != "" {
						params = append(params, p)
					}
				}
				r2 = strings.TrimSpace(full[e+1:])
			}
			if _, dup := cs.Funcs[name]; dup {
				return fmt.Errorf("%s: duplicate contract for %s", where, name)
			}
			curF = &FuncContract{Key: name, LoopInv: map[int][]*Clause{}, LoopDec: map[int][]*Clause{}, LoopMod: map[int][]*Clause{}, Opts: map[string]string{}, Where: where, IsIface: word == "iface", Params: params}
			cs.Funcs[name] = curF
			cs.Order = append(cs.Order, name)
			w2, r3 := splitWord(r2)
			if w2 == "property" {
				curF.Props = strings.Fields(r3)
			}
		case "type":
			curF = nil
			name, r2 := splitWord(rest)
			curT = &TypeContract{Key: name, GuardedBy: map[string][]string{}, Where: where}
			cs.Types[name] = curT
			w2, r3 := splitWord(r2)
			if w2 == "property" {
				curT.Props = strings.Fields(r3)
			}
		case "callers":
			curF, curT = nil, nil
			// callers <callee> property Cxx ... : caller, caller
			k := strings.Index(rest, ":")
			if k < 0 {
				return fmt.Errorf("%s: callers <callee> property <ids> : <allowed callers>", where)
			}
			head := strings.Fields(rest[:k])
			cr := &CallersRule{Callee: head[0], Where: where}
			for i, h := range head[1:] {
				if i == 0 && h == "property" {
					continue
				}
				cr.Props = append(cr.Props, h)
			}
			for _, a := range strings.Split(rest[k+1:], ",") {
				if a = strings.TrimSpace(a); a != "" {
					cr.Allowed = append(cr.Allowed, a)
				}
			}
			cs.Callers = append(cs.Callers, cr)
		case "lemma", "axiom":
			curF, curT = nil, nil
			// lemma name [property Cxx] [uses a b] [forall vars] : expr
			k := strings.Index(rest, ":")
			if k < 0 {
				return fmt.Errorf("%s: lemma needs ':'", where)
			}
			head := strings.Fields(rest[:k])
			lm := &Lemma{Name: head[0], Axiom: word == "axiom", Text: strings.TrimSpace(rest[k+1:]), Where: where}
			mode := ""
			for _, h := range head[1:] {
				switch h {
				case "property", "uses", "apply":
					mode = h
				default:
					if mode == "property" {
						lm.Props = append(lm.Props, h)
					} else if mode == "uses" {
						lm.Uses = append(lm.Uses, h)
					} else if mode == "apply" {
						lm.Apply = append(lm.Apply, h)
					}
				}
			}
			e, err := ParseCExpr(lm.Text)
			if err != nil {
				return fmt.Errorf("%s: %v", where, err)
			}
			lm.E = e
			cs.Lemmas = append(cs.Lemmas, lm)
		default:
			if curF == nil && curT == nil {
				return fmt.Errorf("%s: clause outside func/type: %s", where, it)
			}
			if curT != nil {
				switch word {
				case "guarded_by":
					k := strings.Index(rest, ":")
					if k < 0 {
						return fmt.Errorf("%s: guarded_by mu : fields", where)
					}
					mu := strings.TrimSpace(rest[:k])
					for _, f := range strings.Split(rest[k+1:], ",") {
						curT.GuardedBy[mu] = append(curT.GuardedBy[mu], strings.TrimSpace(f))
					}
				case "invariant":
					cl, err := mkClause("invariant", rest, where)
					if err != nil {
						return err
					}
					curT.Invariants = append(curT.Invariants, cl)
				case "property":
					curT.Props = strings.Fields(rest)
				default:
					return fmt.Errorf("%s: unknown type clause %s", where, word)
				}
				continue
			}
			switch word {
			case "property":
				curF.Props = strings.Fields(rest)
			case "mode":
				curF.Mode = rest
			case "arith":
				curF.Arith = rest
			case "nopanic":
				curF.NoPanic = true
			case "trusted":
				curF.Trusted = true
			case "pure":
				curF.Pure = true
			case "inline":
				curF.Inline = true
			case "uses":
				curF.Uses = append(curF.Uses, strings.Fields(rest)...)
			case "critical":
				// critical <expr>: holds at every Unlock of this function, old() = state at the matching Lock
				cl, err := mkClause("critical", rest, where)
				if err != nil {
					return err
				}
				curF.Critical = append(curF.Critical, cl)
			case "apply":
				// apply <lemma>...: the named lemmas (proved as obligations of their own) are assumed here
				curF.Apply = append(curF.Apply, strings.Fields(rest)...)
			case "params":
				for _, p := range strings.Split(rest, ",") {
					curF.Params = append(curF.Params, strings.TrimSpace(p))
				}
			case "opt":
				k, v := splitWord(rest)
				curF.Opts[k] = v
			case "let":
				k := strings.Index(rest, "=")
				if k < 0 {
					return fmt.Errorf("%s: let name = expr", where)
				}
				name := strings.TrimSpace(rest[:k])
				ex, err := ParseCExpr(strings.TrimSpace(rest[k+1:]))
				if err != nil {
					return fmt.Errorf("%s: %v", where, err)
				}
				if curF.Lets == nil {
					curF.Lets = map[string]*CExpr{}
				}
				curF.Lets[name] = ex
				curF.LetOrder = append(curF.LetOrder, name)
			case "probe":
				k := strings.Index(rest, ":")
				if k < 0 {
					return fmt.Errorf("%s: probe name: expr", where)
				}
				cl, err := mkClause("probe", rest[k+1:], where)
				if err != nil {
					return err
				}
				cl.Label = strings.TrimSpace(rest[:k])
				curF.Probes = append(curF.Probes, cl)
			case "cehint":
				cl, err := mkClause("cehint", rest, where)
				if err != nil {
					return err
				}
				curF.CEHints = append(curF.CEHints, cl)
			case "requires", "ensures", "assume":
				cl, err := mkClause(word, rest, where)
				if err != nil {
					return err
				}
				switch word {
				case "requires":
					curF.Requires = append(curF.Requires, cl)
				case "ensures":
					curF.Ensures = append(curF.Ensures, cl)
				default:
					curF.Assume = append(curF.Assume, cl)
				}
			case "modifies":
				for _, part := range splitTop(rest, ',') {
					cl, err := mkClause("modifies", part, where)
					if err != nil {
						return err
					}
					curF.Modifies = append(curF.Modifies, cl)
				}
			case "monitor", "ghost", "effect":
				cl := &Clause{Kind: word, Text: rest, Where: where}
				switch word {
				case "monitor":
					curF.Monitor = append(curF.Monitor, cl)
				case "ghost":
					curF.Ghost = append(curF.Ghost, cl)
				default:
					curF.Effects = append(curF.Effects, cl)
				}
			case "loop":
				ns, r2 := splitWord(rest)
				n, err := strconv.Atoi(ns)
				if err != nil {
					return fmt.Errorf("%s: loop ordinal: %v", where, err)
				}
				kind, r3 := splitWord(r2)
				switch kind {
				case "invariant", "decreases":
					cl, err := mkClause(kind, r3, where)
					if err != nil {
						return err
					}
					cl.Loop = n
					if kind == "invariant" {
						curF.LoopInv[n] = append(curF.LoopInv[n], cl)
					} else {
						curF.LoopDec[n] = append(curF.LoopDec[n], cl)
					}
				case "apply":
					// loop N apply lemma(args): the lemma instance at the loop head is assumed
					cl, err := mkClause("apply", r3, where)
					if err != nil {
						return err
					}
					cl.Loop = n
					if curF.LoopApply == nil {
						curF.LoopApply = map[int][]*Clause{}
					}
					curF.LoopApply[n] = append(curF.LoopApply[n], cl)
				case "modifies":
					for _, part := range splitTop(r3, ',') {
						cl, err := mkClause("modifies", part, where)
						if err != nil {
							return err
						}
						cl.Loop = n
						curF.LoopMod[n] = append(curF.LoopMod[n], cl)
					}
				default:
					return fmt.Errorf("%s: unknown loop clause %q", where, kind)
				}
			default:
				return fmt.Errorf("%s: unknown clause %q", where, word)
			}
		}
	}
	return nil
}

func splitTop(s string, sep byte) []string {
	var out []string
	depth := 0
	start := 0
	for i := 0; i < len(s); i++ {
		switch s[i] {
		case '(', '[':
			depth++
		case ')', ']':
			depth--
		case sep:
			if depth == 0 {
				out = append(out, strings.TrimSpace(s[start:i]))
				start = i + 1
			}
		}
	}
	if t := strings.TrimSpace(s[start:]); t != "" {
		out = append(out, t)
	}
	return out
}

func mkClause(kind, text, where string) (*Clause, error) {
	cl := &Clause{Kind: kind, Where: where}
	text = strings.TrimSpace(text)
	// optional [C01 C02] property restriction and optional "label:" prefix
	if strings.HasPrefix(text, "[") {
		k := strings.Index(text, "]")
		if k > 0 {
			cl.Props = strings.Fields(text[1:k])
			text = strings.TrimSpace(text[k+1:])
		}
	}
	if strings.HasPrefix(text, "@") {
		w, r := splitWord(text)
		cl.Label = w[1:]
		text = r
	}
	cl.Text = text
	e, err := ParseCExpr(text)
	if err != nil {
		return nil, fmt.Errorf("%s: %v in %q", where, err, text)
	}
	cl.E = e
	return cl, nil
}

func splitWord(s string) (string, string) {
	s = strings.TrimSpace(s)
	k := strings.IndexAny(s, " \t")
	if k < 0 {
		return s, ""
	}
	return s[:k], strings.TrimSpace(s[k+1:])
}

// ---------------------------------------------------------------- expression parser

type ctok struct {
	k string // id int str char op eof
	s string
}

func clex(src string) ([]ctok, error) {
	var out []ctok
	i := 0
	for i < len(src) {
		c := src[i]
		switch {
		case c == ' ' || c == '\t':
			i++
		case unicode.IsLetter(rune(c)) || c == '_':
			j := i
			for j < len(src) && (unicode.IsLetter(rune(src[j])) || unicode.IsDigit(rune(src[j])) || src[j] == '_' || src[j] == '$') {
				j++
			}
			out = append(out, ctok{"id", src[i:j]})
			i = j
		case c >= '0' && c <= '9':
			j := i
			if strings.HasPrefix(src[i:], "0x") {
				j += 2
			}
			for j < len(src) && (src[j] >= '0' && src[j] <= '9' || src[j] >= 'a' && src[j] <= 'f' || src[j] >= 'A' && src[j] <= 'F' || src[j] == '_') {
				j++
			}
			out = append(out, ctok{"int", src[i:j]})
			i = j
		case c == '"' || c == '`':
			j := i + 1
			for j < len(src) && src[j] != c {
				if src[j] == '\\' && c == '"' {
					j++
				}
				j++
			}
			if j >= len(src) {
				return nil, fmt.Errorf("unterminated string")
			}
			s, err := strconv.Unquote(src[i : j+1])
			if err != nil {
				return nil, fmt.Errorf("bad string %s: %v", src[i:j+1], err)
			}
			out = append(out, ctok{"str", s})
			i = j + 1
		case c == '\'':
			j := i + 1
			for j < len(src) && src[j] != '\'' {
				if src[j] == '\\' {
					j++
				}
				j++
			}
			if j >= len(src) {
				return nil, fmt.Errorf("unterminated char")
			}
			r, _, _, err := strconv.UnquoteChar(src[i+1:j], '\'')
			if err != nil {
				return nil, fmt.Errorf("bad char %s", src[i:j+1])
			}
			out = append(out, ctok{"int", strconv.Itoa(int(r))})
			i = j + 1
		default:
			ops := []string{"<==>", "==>", "::", "==", "!=", "<=", ">=", "&&", "||", "<<", ">>", "+", "-", "*", "/", "%", "<", ">", "!", "(", ")", "[", "]", ".", ",", ":", "?", "&", "|"}
			matched := false
			for _, op := range ops {
				if strings.HasPrefix(src[i:], op) {
					out = append(out, ctok{"op", op})
					i += len(op)
					matched = true
					break
				}
			}
			if !matched {
				return nil, fmt.Errorf("unexpected character %q at %d", c, i)
			}
		}
	}
	out = append(out, ctok{"eof", ""})
	return out, nil
}

type cparser struct {
	toks []ctok
	p    int
}

func ParseCExpr(src string) (*CExpr, error) {
	toks, err := clex(src)
	if err != nil {
		return nil, err
	}
	ps := &cparser{toks: toks}
	e, err := ps.parseQuant()
	if err != nil {
		return nil, err
	}
	if ps.peek().k != "eof" {
		return nil, fmt.Errorf("unexpected %q", ps.peek().s)
	}
	return e, nil
}

func (p *cparser) peek() ctok { return p.toks[p.p] }
func (p *cparser) next() ctok { t := p.toks[p.p]; p.p++; return t }
func (p *cparser) isOp(s string) bool {
	t := p.peek()
	return t.k == "op" && t.s == s
}
func (p *cparser) expect(s string) error {
	if !p.isOp(s) {
		return fmt.Errorf("expected %q, got %q", s, p.peek().s)
	}
	p.p++
	return nil
}

func (p *cparser) parseQuant() (*CExpr, error) {
	t := p.peek()
	if t.k == "id" && (t.s == "forall" || t.s == "exists" || t.s == "table") {
		p.next()
		var vars []CVar
		for {
			id := p.next()
			if id.k != "id" {
				return nil, fmt.Errorf("quantifier variable expected")
			}
			v := CVar{Name: id.s}
			// optional type: sequence of tokens until , or ::
			var ty strings.Builder
			for !p.isOp(",") && !p.isOp("::") && p.peek().k != "eof" {
				ty.WriteString(p.next().s)
			}
			v.Type = ty.String()
			vars = append(vars, v)
			if p.isOp(",") {
				p.next()
				continue
			}
			break
		}
		if err := p.expect("::"); err != nil {
			return nil, err
		}
		body, err := p.parseQuant()
		if err != nil {
			return nil, err
		}
		return &CExpr{K: "quant", Op: t.s, Vars: vars, A: body}, nil
	}
	return p.parseIff()
}

func (p *cparser) parseIff() (*CExpr, error) {
	a, err := p.parseImp()
	if err != nil {
		return nil, err
	}
	for p.isOp("<==>") {
		p.next()
		b, err := p.parseImp()
		if err != nil {
			return nil, err
		}
		a = &CExpr{K: "bin", Op: "<==>", A: a, B: b}
	}
	return a, nil
}

func (p *cparser) parseImp() (*CExpr, error) {
	a, err := p.parseOr()
	if err != nil {
		return nil, err
	}
	if p.isOp("==>") {
		p.next()
		// right assoc; allow quantifier on the right
		var b *CExpr
		if t := p.peek(); t.k == "id" && (t.s == "forall" || t.s == "exists" || t.s == "table") {
			b, err = p.parseQuant()
		} else {
			b, err = p.parseImp()
		}
		if err != nil {
			return nil, err
		}
		return &CExpr{K: "bin", Op: "==>", A: a, B: b}, nil
	}
	if p.isOp("?") {
		p.next()
		b, err := p.parseImp()
		if err != nil {
			return nil, err
		}
		if err := p.expect(":"); err != nil {
			return nil, err
		}
		c, err := p.parseImp()
		if err != nil {
			return nil, err
		}
		return &CExpr{K: "ite", A: a, B: b, C: c}, nil
	}
	return a, nil
}

func (p *cparser) parseBinLevel(ops []string, sub func() (*CExpr, error)) (*CExpr, error) {
	a, err := sub()
	if err != nil {
		return nil, err
	}
	for {
		found := ""
		for _, op := range ops {
			if p.isOp(op) {
				found = op
				break
			}
		}
		if found == "" {
			return a, nil
		}
		p.next()
		var b *CExpr
		if t := p.peek(); t.k == "id" && (t.s == "forall" || t.s == "exists" || t.s == "table") && (found == "&&" || found == "||") {
			b, err = p.parseQuant()
		} else {
			b, err = sub()
		}
		if err != nil {
			return nil, err
		}
		a = &CExpr{K: "bin", Op: found, A: a, B: b}
	}
}

func (p *cparser) parseOr() (*CExpr, error) {
	return p.parseBinLevel([]string{"||"}, p.parseAnd)
}
func (p *cparser) parseAnd() (*CExpr, error) {
	return p.parseBinLevel([]string{"&&"}, p.parseCmp)
}
func (p *cparser) parseCmp() (*CExpr, error) {
	a, err := p.parseAdd()
	if err != nil {
		return nil, err
	}
	// chained comparisons a <= b < c
	var res *CExpr
	for {
		found := ""
		for _, op := range []string{"==", "!=", "<=", ">=", "<", ">"} {
			if p.isOp(op) {
				found = op
				break
			}
		}
		if found == "" {
			break
		}
		p.next()
		b, err := p.parseAdd()
		if err != nil {
			return nil, err
		}
		c := &CExpr{K: "bin", Op: found, A: a, B: b}
		if res == nil {
			res = c
		} else {
			res = &CExpr{K: "bin", Op: "&&", A: res, B: c}
		}
		a = b
	}
	if res != nil {
		return res, nil
	}
	return a, nil
}
func (p *cparser) parseAdd() (*CExpr, error) {
	return p.parseBinLevel([]string{"+", "-", "|"}, p.parseMul)
}
func (p *cparser) parseMul() (*CExpr, error) {
	return p.parseBinLevel([]string{"*", "/", "%", "<<", ">>", "&"}, p.parseUnary)
}
func (p *cparser) parseUnary() (*CExpr, error) {
	if p.isOp("!") || p.isOp("-") {
		op := p.next().s
		a, err := p.parseUnary()
		if err != nil {
			return nil, err
		}
		return &CExpr{K: "un", Op: op, A: a}, nil
	}
	return p.parsePostfix()
}

func (p *cparser) parsePostfix() (*CExpr, error) {
	a, err := p.parsePrimary()
	if err != nil {
		return nil, err
	}
	for {
		switch {
		case p.isOp("."):
			p.next()
			t := p.next()
			if t.k != "id" && t.k != "int" {
				return nil, fmt.Errorf("field name expected after '.'")
			}
			a = &CExpr{K: "sel", A: a, Name: t.s}
		case p.isOp("["):
			p.next()
			var lo, hi *CExpr
			if !p.isOp(":") {
				lo, err = p.parseQuant()
				if err != nil {
					return nil, err
				}
			}
			if p.isOp(":") {
				p.next()
				if !p.isOp("]") {
					hi, err = p.parseQuant()
					if err != nil {
						return nil, err
					}
				}
				if err := p.expect("]"); err != nil {
					return nil, err
				}
				a = &CExpr{K: "slice", A: a, B: lo, C: hi}
			} else {
				if err := p.expect("]"); err != nil {
					return nil, err
				}
				a = &CExpr{K: "idx", A: a, B: lo}
			}
		case p.isOp("("):
			p.next()
			var args []*CExpr
			for !p.isOp(")") {
				e, err := p.parseQuant()
				if err != nil {
					return nil, err
				}
				args = append(args, e)
				if p.isOp(",") {
					p.next()
				} else {
					break
				}
			}
			if err := p.expect(")"); err != nil {
				return nil, err
			}
			a = &CExpr{K: "call", A: a, Args: args}
		default:
			return a, nil
		}
	}
}

func (p *cparser) parsePrimary() (*CExpr, error) {
	t := p.next()
	switch t.k {
	case "id":
		return &CExpr{K: "id", Name: t.s}, nil
	case "int":
		n, ok := new(big.Int).SetString(strings.ReplaceAll(t.s, "_", ""), 0)
		if !ok {
			return nil, fmt.Errorf("bad int %s", t.s)
		}
		return &CExpr{K: "int", Int: n}, nil
	case "str":
		return &CExpr{K: "str", Str: t.s}, nil
	case "op":
		if t.s == "(" {
			e, err := p.parseQuant()
			if err != nil {
				return nil, err
			}
			if err := p.expect(")"); err != nil {
				return nil, err
			}
			return e, nil
		}
	}
	return nil, fmt.Errorf("unexpected token %q", t.s)
}

func (e *CExpr) String() string {
	if e == nil {
		return ""
	}
	switch e.K {
	case "id":
		return e.Name
	case "int":
		return e.Int.String()
	case "str":
		return strconv.Quote(e.Str)
	case "bin":
		return "(" + e.A.String() + " " + e.Op + " " + e.B.String() + ")"
	case "un":
		return e.Op + e.A.String()
	case "sel":
		return e.A.String() + "." + e.Name
	case "idx":
		return e.A.String() + "[" + e.B.String() + "]"
	case "slice":
		return e.A.String() + "[" + e.B.String() + ":" + e.C.String() + "]"
	case "call":
		var as []string
		for _, a := range e.Args {
			as = append(as, a.String())
		}
		return e.A.String() + "(" + strings.Join(as, ", ") + ")"
	case "quant":
		var vs []string
		for _, v := range e.Vars {
			vs = append(vs, strings.TrimSpace(v.Name+" "+v.Type))
		}
		return "(" + e.Op + " " + strings.Join(vs, ", ") + " :: " + e.A.String() + ")"
	case "ite":
		return "(" + e.A.String() + " ? " + e.B.String() + " : " + e.C.String() + ")"
	}
	return "?"
}
