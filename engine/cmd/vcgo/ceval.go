package main

// Evaluation of contract expressions against a symbolic state.

import (
	"fmt"
	"go/constant"
	"math/big"
	"go/types"
	"strconv"
	"strings"

	"golang.org/x/tools/go/ssa"
)

type Env struct {
	F      *Frame
	State  *State
	Old    *State
	Vars   map[string]*Val
	Result *Val
	Callee *FuncContract
	Loop   *loopEnv
	Bound  map[string]*Val
	Fn     *ssa.Function // function whose names are in scope (for package lookup)
}

func (f *Frame) envFor(le *loopEnv, st *State, cl *Clause) *Env {
	return &Env{F: f, State: st, Old: f.entryState, Loop: le, Fn: f.Fn}
}

func (f *Frame) evalBool(e *CExpr, env *Env) *Term {
	v := f.evalC(e, env)
	if v.K != VScalar || v.X.S.K != SBool {
		f.E.fail("contract expression %s is not boolean", e)
	}
	return v.X
}

func boolVal(t *Term) *Val { return &Val{K: VScalar, T: types.Typ[types.Bool], X: t} }
func intVal(t *Term) *Val  { return &Val{K: VScalar, T: types.Typ[types.Int], X: t} }

func (f *Frame) evalC(e *CExpr, env *Env) *Val {
	switch e.K {
	case "int":
		return &Val{K: VScalar, T: types.Typ[types.UntypedInt], X: BigLit(e.Int)}
	case "str":
		if f.E.Mode.Bytes {
			return f.stringConst(e.Str, types.Typ[types.String])
		}
		return &Val{K: VScalar, T: types.Typ[types.String], X: StrLit(e.Str)}
	case "id":
		return f.evalId(e.Name, env)
	case "un":
		a := f.evalC(e.A, env)
		if e.Op == "!" {
			return boolVal(Not(a.X))
		}
		return &Val{K: VScalar, T: a.T, X: Neg(a.X)}
	case "ite":
		c := f.evalBool(e.A, env)
		a, b := f.evalC(e.B, env), f.evalC(e.C, env)
		return f.iteVal(c, a, b)
	case "bin":
		return f.evalBin(e, env)
	case "quant":
		nenv := *env
		nenv.Bound = map[string]*Val{}
		for k, v := range env.Bound {
			nenv.Bound[k] = v
		}
		if e.Op == "table" {
			// table r T :: P(r)  is the array t with t[r] == P(r) for every r (a definitional
			// axiom); identical bodies share one array, so that a predicate over the entry
			// state is one table throughout the function
			if len(e.Vars) != 1 {
				f.E.fail("table takes one bound variable")
			}
			name := "r!tbl"
			val, g := f.boundVar(name, e.Vars[0].Type)
			nenv.Bound[e.Vars[0].Name] = val
			body := f.evalBool(e.A, &nenv)
			if g != nil {
				body = And(g, body)
			}
			key := body.String()
			if f.E.tables == nil {
				f.E.tables = map[string]*Term{}
			}
			t, ok := f.E.tables[key]
			if !ok {
				t = f.E.declare(fmt.Sprintf("tbl!%d", len(f.E.tables)+1), ArrayS(val.X.S, BoolS))
				f.E.tables[key] = t
				b := Bound{Name: name, S: val.X.S}
				f.E.addFact(True, Forall([]Bound{b}, Eq(Select(t, Var(name, val.X.S)), body)), "table definition")
			}
			return &Val{K: VScalar, X: t}
		}
		var bs []Bound
		var guards []*Term
		for _, v := range e.Vars {
			name := fmt.Sprintf("%s!%d", v.Name, f.E.nextQ())
			val, g := f.boundVar(name, v.Type)
			nenv.Bound[v.Name] = val
			bs = append(bs, Bound{Name: name, S: val.X.S})
			if g != nil {
				guards = append(guards, g)
			}
		}
		body := f.evalBool(e.A, &nenv)
		if e.Op == "forall" {
			return boolVal(Forall(bs, shiftQuantVars(bs, Implies(And(guards...), body))))
		}
		return boolVal(Exists(bs, shiftQuantVars(bs, And(append(guards, body)...))))
	case "sel":
		return f.evalSel(e, env)
	case "idx":
		a := f.evalC(e.A, env)
		i := f.evalC(e.B, env)
		return f.indexVal(a, i, env)
	case "slice":
		a := f.evalC(e.A, env)
		var lo, hi *Term
		if e.B != nil {
			lo = f.evalC(e.B, env).X
		} else {
			lo = IntLit(0)
		}
		switch a.K {
		case VBytes:
			if e.C != nil {
				hi = f.evalC(e.C, env).X
			} else {
				hi = a.Len
			}
			return &Val{K: VBytes, T: a.T, Arr: a.Arr, Off: Add(a.Off, lo), Len: Sub(hi, lo)}
		case VSlice:
			if e.C != nil {
				hi = f.evalC(e.C, env).X
			} else {
				hi = a.Len
			}
			return &Val{K: VSlice, T: a.T, Base: a.Base, Off: Add(a.Off, lo), Len: Sub(hi, lo), Cap: Sub(a.Cap, lo)}
		case VScalar:
			if e.C != nil {
				hi = f.evalC(e.C, env).X
			} else {
				hi = f.strLen(a)
			}
			return &Val{K: VScalar, T: a.T, X: App("str.substr", StringS, a.X, lo, Sub(hi, lo))}
		}
		f.E.fail("cannot slice %s", e.A)
	case "call":
		return f.evalCall(e, env)
	}
	f.E.fail("cannot evaluate contract expression %s", e)
	return nil
}

func (e *Enc) nextQ() int { e.nq++; return e.nq }

func (f *Frame) boundVar(name, typ string) (*Val, *Term) {
	switch typ {
	case "", "int":
		return intVal(Var(name, IntS)), nil
	case "string":
		return &Val{K: VScalar, T: types.Typ[types.String], X: Var(name, StringS)}, nil
	case "bool":
		return boolVal(Var(name, BoolS)), nil
	case "arr":
		// an arbitrary byte array (for lemmas over spec functions)
		return &Val{K: VScalar, X: Var(name, ArrayS(IntS, IntS))}, nil
	case "byte":
		v := Var(name, IntS)
		return &Val{K: VScalar, T: types.Typ[types.Uint8], X: v}, And(Ge(v, IntLit(0)), Le(v, IntLit(255)))
	}
	ptr := strings.HasPrefix(typ, "*")
	n := f.E.P.Named[strings.TrimPrefix(typ, "*")]
	if n == nil {
		f.E.fail("unknown type %q for bound variable", typ)
	}
	var t types.Type = n
	if ptr {
		t = types.NewPointer(n)
	}
	if s, _, ok := scalarSortOf(t, f.E.Mode); ok {
		return &Val{K: VScalar, T: t, X: Var(name, s)}, nil
	}
	if _, isIface := t.Underlying().(*types.Interface); isIface {
		// an interface value: quantify over its packed key and unpack (tag, payload)
		f.E.Uses["ikey"] = true
		k := Var(name, IntS)
		return &Val{K: VIface, T: t, Tag: App("ikey_tag", IntS, k), X: App("ikey_pay", IntS, k)}, nil
	}
	f.E.fail("bound variable of non-scalar type %s", typ)
	return nil, nil
}

func (f *Frame) evalId(name string, env *Env) *Val {
	if v, ok := env.Bound[name]; ok {
		return v
	}
	if v, ok := env.Vars[name]; ok {
		return v
	}
	lets := f.letsFor(env)
	if lx, ok := lets[name]; ok {
		return f.evalC(lx, env)
	}
	if env.Loop != nil && env.Result == nil {
		// inside a loop invariant a local variable may shadow a contract keyword (e.g. "result")
		if v, ok := env.Loop.phis[name]; ok {
			return v
		}
	}
	switch name {
	case "true":
		return boolVal(True)
	case "false":
		return boolVal(False)
	case "nil":
		return &Val{K: VScalar, T: types.Typ[types.UntypedNil], X: IntLit(0)}
	case "result":
		if env.Result == nil {
			// a local variable named result (address-taken) inside a loop invariant
			if env.Callee == nil {
				if v := f.localByName(name, env.State); v != nil {
					return v
				}
			}
			f.E.fail("'result' used where no result is in scope")
		}
		return env.Result
	case "iter":
		if env.Loop != nil && env.Loop.iter != nil {
			return intVal(env.Loop.iter)
		}
		f.E.fail("'iter' is only defined for range-over-slice loops")
	}
	if env.Loop != nil {
		if v, ok := env.Loop.phis[name]; ok {
			return v
		}
	}
	if env.Callee == nil {
		if v, ok := f.params[name]; ok {
			return v
		}
		if strings.HasSuffix(name, "0") {
			if v, ok := f.params[name[:len(name)-1]]; ok {
				return v
			}
		}
		// named results
		if env.Result != nil {
			rs := f.Fn.Signature.Results()
			for i := 0; i < rs.Len(); i++ {
				if rs.At(i).Name() == name {
					if rs.Len() == 1 {
						return env.Result
					}
					return env.Result.Fields[i]
				}
			}
		}
		// address-taken locals by source name
		if v := f.localByName(name, env.State); v != nil {
			return v
		}
	}
	// spec constants
	if f.E.P.Spec != nil {
		if sym, ok := f.E.P.Spec.Syms[name]; ok && len(sym.Args) == 0 {
			f.E.Uses[sym.Lib] = true
			return &Val{K: VScalar, X: App(name, sym.Res)}
		}
	}
	// package-level constants of the function's package
	fn := env.Fn
	if fn == nil {
		fn = f.Fn
	}
	if fn != nil && fn.Pkg != nil {
		if v := f.pkgConst(fn.Pkg.Pkg, name); v != nil {
			return v
		}
	}
	f.E.fail("unknown identifier %q in contract", name)
	return nil
}

func (f *Frame) letsFor(env *Env) map[string]*CExpr {
	if env.Callee != nil {
		return env.Callee.Lets
	}
	if f.C != nil {
		return f.C.Lets
	}
	return nil
}

func (f *Frame) pkgConst(pkg *types.Package, name string) *Val {
	obj := pkg.Scope().Lookup(name)
	c, ok := obj.(*types.Const)
	if !ok {
		return nil
	}
	return f.constToVal(c.Val(), c.Type())
}

func (f *Frame) constToVal(v constant.Value, t types.Type) *Val {
	switch v.Kind() {
	case constant.String:
		return f.stringConst(constant.StringVal(v), t)
	case constant.Int:
		n, _ := new(big.Int).SetString(v.ExactString(), 10)
		return &Val{K: VScalar, T: t, X: BigLit(n)}
	case constant.Bool:
		return boolVal(BoolLit(constant.BoolVal(v)))
	case constant.Float:
		return &Val{K: VScalar, T: t, X: realConst(v)}
	}
	return nil
}

func (f *Frame) localByName(name string, st *State) *Val {
	var found *Val
	for v, val := range f.vals {
		if a, ok := v.(*ssa.Alloc); ok && a.Comment == name && val.K == VAddr && (val.Addr.Kind == ALocal || val.Addr.Kind == AObj && strings.HasPrefix(val.Addr.Key, "C$")) {
			if found != nil {
				return nil // ambiguous
			}
			found = f.load(val.Addr, st)
		} else if ok && a.Comment == name && isStructType(a.Type().Underlying().(*types.Pointer).Elem()) && (val.K == VScalar || val.K == VAddr && val.Addr.Kind == AObj && val.Addr.Path == "") {
			// a struct variable that lives on the heap (its address escapes): the name denotes the object
			if found != nil {
				return nil
			}
			if val.K == VScalar {
				found = val
			} else {
				found = &Val{K: VScalar, T: a.Type(), X: val.Addr.Obj}
			}
		}
	}
	return found
}

func (f *Frame) evalSel(e *CExpr, env *Env) *Val {
	// package-qualified constant or type: core.Complete
	if e.A.K == "id" {
		if _, isVar := f.lookupMaybe(e.A.Name, env); !isVar {
			for _, p := range f.E.P.Pkgs {
				_ = p
			}
			if pkg := f.E.P.pkgByAlias(e.A.Name); pkg != nil {
				if v := f.pkgConst(pkg, e.Name); v != nil {
					return v
				}
				if gv, ok := pkg.Scope().Lookup(e.Name).(*types.Var); ok {
					a := &Addr{Kind: AObj, Obj: IntLit(1), Key: "G$" + pkgQualifier(pkg) + "." + e.Name, T: gv.Type()}
					return f.load(a, env.State)
				}
				f.E.fail("unknown constant %s.%s", e.A.Name, e.Name)
			}
		}
	}
	a := f.evalC(e.A, env)
	if n, err := strconv.Atoi(e.Name); err == nil {
		if a.K == VTuple || a.K == VStruct {
			return a.Fields[n]
		}
		f.E.fail("%s is not a tuple", e.A)
	}
	switch a.K {
	case VStruct:
		st, ok := a.T.Underlying().(*types.Struct)
		if !ok {
			f.E.fail("field %s of non-struct", e.Name)
		}
		for i := 0; i < st.NumFields(); i++ {
			if st.Field(i).Name() == e.Name {
				return a.Fields[i]
			}
		}
		f.E.fail("no field %s in %s", e.Name, a.T)
	case VScalar, VAddr:
		addr := f.fieldAddrByName(a, e.Name)
		if innerStruct(addr.T) && addr.Kind == AObj && addr.Path == "" {
			// embedded struct by value in a heap object: a reference to the inner object
			return &Val{K: VScalar, T: types.NewPointer(addr.T), X: addr.Obj, ByValue: true}
		}
		if isOpaqueStruct(addr.T) || isStructType(addr.T) {
			// embedded struct by value: stay an address
			return &Val{K: VAddr, T: types.NewPointer(addr.T), Addr: addr}
		}
		v := f.load(addr, env.State)
		return v
	case VIface:
		switch e.Name {
		case "tag":
			return intVal(a.Tag)
		case "ptr":
			return intVal(a.X)
		}
	}
	f.E.fail("cannot select .%s from %s", e.Name, e.A)
	return nil
}

func isStructType(t types.Type) bool {
	_, ok := t.Underlying().(*types.Struct)
	return ok
}

func (f *Frame) lookupMaybe(name string, env *Env) (*Val, bool) {
	if v, ok := env.Bound[name]; ok {
		return v, true
	}
	if v, ok := env.Vars[name]; ok {
		return v, true
	}
	if env.Loop != nil {
		if v, ok := env.Loop.phis[name]; ok {
			return v, true
		}
	}
	if env.Callee == nil {
		if v, ok := f.params[name]; ok {
			return v, true
		}
	}
	return nil, false
}

func (p *Program) pkgByAlias(alias string) *types.Package {
	var found *types.Package
	for _, n := range p.Named {
		if pk := n.Obj().Pkg(); pk != nil && pkgQualifier(pk) == alias {
			found = pk
			break
		}
	}
	if found == nil {
		for _, n := range p.Named {
			if pk := n.Obj().Pkg(); pk != nil && pk.Name() == alias {
				return pk
			}
		}
	}
	return found
}

// fieldAddrByName: address of field name in the struct that v points to (follows embedded fields).
func (f *Frame) fieldAddrByName(v *Val, name string) *Addr {
	var st types.Type
	var base *Addr
	switch v.K {
	case VScalar:
		if v.T == nil {
			f.E.fail("untyped value has no field %s", name)
		}
		pt, ok := v.T.Underlying().(*types.Pointer)
		if !ok {
			f.E.fail("value of type %s has no field %s", v.T, name)
		}
		st = pt.Elem()
		base = &Addr{Kind: AObj, Obj: v.X, Key: "F$" + typeKey(st), T: st}
	case VAddr:
		st = v.Addr.T
		base = v.Addr
	default:
		f.E.fail("cannot take field %s of %s", name, v)
	}
	obj, idx, _ := types.LookupFieldOrMethod(st, true, nil, name)
	if obj == nil {
		// unexported field: need the package
		if n, ok := st.(*types.Named); ok {
			obj, idx, _ = types.LookupFieldOrMethod(st, true, n.Obj().Pkg(), name)
		}
	}
	fld, ok := obj.(*types.Var)
	if !ok {
		f.E.fail("no field %s in %s", name, st)
	}
	cur := base
	t := st
	for _, i := range idx {
		su := t.Underlying().(*types.Struct)
		fd := su.Field(i)
		cur = f.fieldOf(cur, t, fd.Name(), fd.Type())
		t = fd.Type()
	}
	_ = fld
	return cur
}

func (f *Frame) indexVal(a, i *Val, env *Env) *Val {
	switch a.K {
	case VBytes:
		return &Val{K: VScalar, T: types.Typ[types.Uint8], X: Select(a.Arr, Add(a.Off, i.X))}
	case VSlice:
		et := a.T.Underlying().(*types.Slice).Elem()
		addr := &Addr{Kind: AElem, Base: a.Base, Idx: Add(a.Off, i.X), Key: "M$" + typeKey(et), T: et}
		if isStructType(et) {
			return &Val{K: VAddr, T: types.NewPointer(et), Addr: addr}
		}
		return f.load(addr, env.State)
	case VScalar:
		if a.T != nil {
			if _, ok := a.T.Underlying().(*types.Map); ok {
				mk := f.mapInfo(a.T)
				if len(mk.vleaves) == 0 {
					return f.zeroVal(mk.vt)
				}
				kt := f.keyTermFor(a.T, i)
				has := And(Neq(a.X, IntLit(0)), Select(f.mapDom(mk, a.X, env.State), kt))
				return f.iteVal(has, f.mapValue(mk, a.X, kt, env.State), f.zeroVal(mk.vt))
			}
		}
		if a.X.S.K == SString {
			return &Val{K: VScalar, T: types.Typ[types.Uint8], X: App("str.to_code", IntS, App("str.at", StringS, a.X, i.X))}
		}
		if a.X.S.K == SArray {
			return &Val{K: VScalar, X: Select(a.X, i.X)}
		}
	}
	f.E.fail("cannot index %s", a)
	return nil
}

func (f *Frame) derefIfStructAddr(v *Val, env *Env) *Val {
	return v
}

func (f *Frame) evalBin(e *CExpr, env *Env) *Val {
	switch e.Op {
	case "&&":
		return boolVal(And(f.evalBool(e.A, env), f.evalBool(e.B, env)))
	case "||":
		return boolVal(Or(f.evalBool(e.A, env), f.evalBool(e.B, env)))
	case "==>":
		return boolVal(Implies(f.evalBool(e.A, env), f.evalBool(e.B, env)))
	case "<==>":
		return boolVal(Eq(f.evalBool(e.A, env), f.evalBool(e.B, env)))
	}
	a, b := f.evalC(e.A, env), f.evalC(e.B, env)
	switch e.Op {
	case "==", "!=":
		var eq *Term
		if a.K == VScalar && b.K == VScalar && a.ByValue && b.ByValue {
			at := a.T.Underlying().(*types.Pointer).Elem()
			av := f.load(&Addr{Kind: AObj, Obj: a.X, Key: "F$" + typeKey(at), T: at}, env.State)
			bv := f.load(&Addr{Kind: AObj, Obj: b.X, Key: "F$" + typeKey(at), T: at}, env.State)
			eq = f.valEq(av, bv, at)
			if e.Op == "!=" {
				eq = Not(eq)
			}
			return boolVal(eq)
		}
		if a.K == VAddr && b.K == VAddr && isStructType(a.Addr.T) && isStructType(b.Addr.T) && !isOpaqueStruct(a.Addr.T) && e.Op != "" && a.Addr.Kind == AObj {
			// embedded struct values: compare by value
			eq = f.valEq(f.load(a.Addr, env.State), f.load(b.Addr, env.State), a.Addr.T)
		} else if a.K == VAddr && a.Addr.Kind == AElem && isStructType(a.Addr.T) && b.K == VAddr {
			eq = And(Eq(a.Addr.Base, b.Addr.Base), Eq(a.Addr.Idx, b.Addr.Idx))
		} else {
			a, b = f.unifyNil(a, b), f.unifyNil(b, a)
			if a.K == VSlice && b.K == VSlice && !isZero(a.Base) && !isZero(b.Base) {
				eq = And(Eq(a.Base, b.Base), Eq(a.Off, b.Off), Eq(a.Len, b.Len), Eq(a.Cap, b.Cap))
			} else {
				eq = f.valEq(a, b, a.T)
			}
		}
		if e.Op == "!=" {
			eq = Not(eq)
		}
		return boolVal(eq)
	}
	if a.K != VScalar || b.K != VScalar {
		f.E.fail("operator %s on non-scalar contract values (%s, %s)", e.Op, e.A, e.B)
	}
	x, y := a.X, b.X
	switch e.Op {
	case "<":
		if x.S.K == SString {
			return boolVal(App("str.<", BoolS, x, y))
		}
		return boolVal(Lt(x, y))
	case "<=":
		if x.S.K == SString {
			return boolVal(App("str.<=", BoolS, x, y))
		}
		return boolVal(Le(x, y))
	case ">":
		if x.S.K == SString {
			return boolVal(App("str.<", BoolS, y, x))
		}
		return boolVal(Gt(x, y))
	case ">=":
		if x.S.K == SString {
			return boolVal(App("str.<=", BoolS, y, x))
		}
		return boolVal(Ge(x, y))
	case "+":
		if x.S.K == SString {
			return &Val{K: VScalar, T: a.T, X: App("str.++", StringS, x, y)}
		}
		return &Val{K: VScalar, T: a.T, X: Add(x, y)}
	case "-":
		return &Val{K: VScalar, T: a.T, X: Sub(x, y)}
	case "*":
		return &Val{K: VScalar, T: a.T, X: Mul(x, y)}
	case "/":
		if x.S.K == SReal || y.S.K == SReal {
			return &Val{K: VScalar, T: a.T, X: App("/", RealS, toReal(x), toReal(y))}
		}
		return &Val{K: VScalar, T: a.T, X: Div(x, y)}
	case "%":
		return &Val{K: VScalar, T: a.T, X: Mod(x, y)}
	case ">>":
		if k, ok := y.IntVal(); ok {
			return &Val{K: VScalar, T: a.T, X: Div(x, BigLit(bigPow2(uint(k))))}
		}
	case "<<":
		if k, ok := y.IntVal(); ok {
			return &Val{K: VScalar, T: a.T, X: Mul(x, BigLit(bigPow2(uint(k))))}
		}
	case "&":
		if m, ok := y.IntVal(); ok && (m+1)&m == 0 {
			return &Val{K: VScalar, T: a.T, X: Mod(x, IntLit(m+1))}
		}
	}
	f.E.fail("unsupported contract operator %s", e.Op)
	return nil
}

// unifyNil converts an untyped nil to the shape of the other operand.
func (f *Frame) unifyNil(a, other *Val) *Val {
	if a.K == VScalar && a.T == types.Typ[types.UntypedNil] {
		switch other.K {
		case VIface:
			return &Val{K: VIface, T: other.T, Tag: IntLit(0), X: IntLit(0)}
		case VSlice:
			return &Val{K: VSlice, T: other.T, Base: IntLit(0), Off: IntLit(0), Len: IntLit(0), Cap: IntLit(0)}
		case VFunc:
			return &Val{K: VFunc, T: other.T}
		}
	}
	return a
}

func (f *Frame) evalCall(e *CExpr, env *Env) *Val {
	if e.A.K != "id" {
		f.E.fail("unsupported call target %s", e.A)
	}
	name := e.A.Name
	arg := func(i int) *Val { return f.evalC(e.Args[i], env) }
	switch name {
	case "real":
		// real(i): the integer i as a real number (float64 values are modelled as reals)
		a := arg(0)
		if a.K != VScalar || a.X == nil {
			f.E.fail("real() needs a number")
		}
		return &Val{K: VScalar, T: types.Typ[types.Float64], X: toReal(a.X)}
	case "len":
		a := arg(0)
		switch a.K {
		case VSlice, VBytes:
			return intVal(a.Len)
		case VScalar:
			if a.T != nil {
				if _, ok := a.T.Underlying().(*types.Map); ok {
					mk := f.mapInfo(a.T)
					return intVal(Ite(Eq(a.X, IntLit(0)), IntLit(0), f.mapLen(mk, a.X, env.State)))
				}
			}
			return intVal(f.strLen(a))
		}
		f.E.fail("len of %s", e.Args[0])
	case "cap":
		return intVal(arg(0).Cap)
	case "old":
		nenv := *env
		nenv.State = env.Old
		return f.evalC(e.Args[0], &nenv)
	case "hasprefix", "hassuffix", "contains":
		a, b := arg(0), arg(1)
		if a.K != VScalar || a.X.S.K != SString {
			f.E.fail("%s needs opaque strings", name)
		}
		op := map[string]string{"hasprefix": "str.prefixof", "hassuffix": "str.suffixof", "contains": "str.contains"}[name]
		if name == "contains" {
			return boolVal(App(op, BoolS, a.X, b.X))
		}
		return boolVal(App(op, BoolS, b.X, a.X))
	case "fieldarr":
		// fieldarr(pkg.Type.field): the heap array of a scalar field, in the current state
		sel := e.Args[0]
		if sel.K != "sel" {
			f.E.fail("fieldarr(pkg.Type.field)")
		}
		n := f.E.P.Named[sel.A.String()]
		if n == nil {
			f.E.fail("fieldarr: unknown type %s", sel.A)
		}
		st := n.Underlying().(*types.Struct)
		for i := 0; i < st.NumFields(); i++ {
			if st.Field(i).Name() == sel.Name {
				ls := leavesOf(st.Field(i).Type(), f.E.Mode)
				if len(ls) != 1 {
					f.E.fail("fieldarr: field %s is not scalar", sel.Name)
				}
				key := "F$" + typeKey(n) + "$" + sel.Name + ls[0].path
				t := env.State.Get(key, ArrayS(IntS, ls[0].sort))
				f.E.noteVars(t)
				return &Val{K: VScalar, X: t}
			}
		}
		f.E.fail("fieldarr: no field %s", sel.Name)
	case "atloop":
		// value of the expression in the heap state at the entry of the current loop
		if env.Loop == nil || env.Loop.pre == nil {
			f.E.fail("atloop() used outside a loop invariant")
		}
		nenv := *env
		nenv.State = env.Loop.pre
		return f.evalC(e.Args[0], &nenv)
	case "has":
		m, k := arg(0), arg(1)
		mk := f.mapInfo(m.T)
		return boolVal(And(Neq(m.X, IntLit(0)), Select(f.mapDom(mk, m.X, env.State), f.keyTermFor(m.T, k))))
	case "dom":
		m := arg(0)
		mk := f.mapInfo(m.T)
		d := f.mapDom(mk, m.X, env.State)
		return &Val{K: VScalar, X: Ite(Eq(m.X, IntLit(0)), ConstArray(ArrayS(mk.ksort, BoolS), False), d)}
	case "closed":
		c := arg(0)
		cl := env.State.Get("closed", ArrayS(IntS, BoolS))
		f.E.noteVars(cl)
		return boolVal(Select(cl, c.X))
	case "held":
		mu := arg(0)
		if mu.K != VAddr {
			f.E.fail("held() needs a mutex field")
		}
		key := "held$" + mu.Addr.Key + mu.Addr.Path
		h := env.State.Get(key, ArrayS(IntS, BoolS))
		f.E.noteVars(h)
		return boolVal(Select(h, mu.Addr.Obj))
	case "suffix":
		// suffix(s, s0): s is a suffix of s0 (same backing array)
		s, s0 := arg(0), arg(1)
		if s.K == VBytes {
			return boolVal(And(Eq(s.Arr, s0.Arr), Eq(Add(s.Off, s.Len), Add(s0.Off, s0.Len)), Ge(s.Off, s0.Off)))
		}
		if s.K == VSlice {
			return boolVal(And(Eq(s.Base, s0.Base), Eq(Add(s.Off, s.Len), Add(s0.Off, s0.Len)), Ge(s.Off, s0.Off)))
		}
		return boolVal(App("str.suffixof", BoolS, s.X, s0.X))
	case "prefixarr":
		// prefixarr(a, b): slice a extends b in place or by copy: first len(b) elements equal
		f.E.fail("prefixarr not implemented")
	case "off":
		a := arg(0)
		return intVal(a.Off)
	case "base":
		return intVal(arg(0).Base)
	case "arr":
		a := arg(0)
		if a.K == VBytes {
			return &Val{K: VScalar, X: a.Arr}
		}
		if a.K == VSlice {
			key, ls := f.elemLeaves(a.T)
			if len(ls) != 1 {
				f.E.fail("arr() of slice with compound elements")
			}
			cur := env.State.Get(key+ls[0].path, ArrayS(IntS, ArrayS(IntS, ls[0].sort)))
			f.E.noteVars(cur)
			return &Val{K: VScalar, X: Select(cur, a.Base)}
		}
	case "ghost":
		gname := e.Args[0].Name
		if e.Args[0].K == "str" {
			gname = e.Args[0].Str
		}
		s, ok := f.E.P.Spec.ghostSort(gname)
		if !ok {
			if s2, ok2 := env.State.sorts[gname]; ok2 {
				s = s2
			} else {
				f.E.fail("unknown ghost %s", gname)
			}
		}
		t := env.State.Get(gname, s)
		f.E.noteVars(t)
		return &Val{K: VScalar, X: t}
	case "mon":
		// mon(v, comp): ghost component of a monitored value
		a := arg(0)
		comp := e.Args[1].Name
		g, ok := a.Ghost[comp]
		if !ok && f.writerMonitor() != nil && (comp == "q" || comp == "k") {
			key := monQKey
			if comp == "k" {
				key = monKKey
			}
			t := env.State.Get(key, IntS)
			f.E.noteVars(t)
			return intVal(t)
		}
		if !ok {
			f.E.fail("value %s has no ghost component %s", e.Args[0], comp)
		}
		return intVal(g)
	case "str":
		// string(b) of a byte slice, in the current state
		a := arg(0)
		if a.K == VBytes {
			return a
		}
		if a.K != VSlice || !f.E.Mode.Bytes {
			f.E.fail("str() needs a []byte in bytes mode")
		}
		cur := env.State.Get("M$byte", ArrayS(IntS, ArrayS(IntS, IntS)))
		f.E.noteVars(cur)
		return &Val{K: VBytes, T: types.Typ[types.String], Arr: Select(cur, a.Base), Off: a.Off, Len: a.Len}
	case "fn":
		key := e.Args[0].String()
		if e.Args[0].K == "str" {
			key = e.Args[0].Str
		}
		var args []*Val
		for i := 1; i < len(e.Args); i++ {
			a := arg(i)
			if a.K == VScalar && a.ByValue {
				// an embedded struct passed by value
				at := a.T.Underlying().(*types.Pointer).Elem()
				a = f.load(&Addr{Kind: AObj, Obj: a.X, Key: "F$" + typeKey(at), T: at}, env.State)
			}
			args = append(args, a)
		}
		return f.detApply(key, key, args)
	case "abs":
		// abs(name, F, args...): an uninterpreted function `name` with the result type of F
		var args []*Val
		for i := 2; i < len(e.Args); i++ {
			args = append(args, arg(i))
		}
		return f.detApply(e.Args[1].String(), "abs$"+e.Args[0].Name, args)
	case "as":
		a := arg(0)
		tn := e.Args[1].String()
		ptr := strings.HasPrefix(tn, "ptr_")
		n := f.E.P.Named[strings.TrimPrefix(tn, "ptr_")]
		if n == nil {
			f.E.fail("unknown type %s", tn)
		}
		var t types.Type = n
		if ptr {
			t = types.NewPointer(n)
		}
		if a.K != VIface {
			f.E.fail("as() needs an interface value")
		}
		if a.Boxed != nil && a.Boxed.K == VSlice {
			// the interface value was made by boxing this slice: as() gives the slice itself
			return a.Boxed
		}
		return &Val{K: VScalar, T: t, X: a.X}
	case "matches", "rrun", "rstate":
		rule := e.Args[0].Name
		d := f.E.P.Rules[rule]
		if d == nil {
			f.E.fail("unknown token rule %s", rule)
		}
		f.E.Uses["re_"+rule] = true
		f.E.Trusted["regexp: "+rule+".Find returns a member of the language of its expression; automaton extracted from the source with \\b/$ assertions dropped and bytes >= 0x80 as one symbol"] = true
		if name == "rstate" {
			if e.Args[1].K != "str" {
				f.E.fail("rstate(rule, \"text\")")
			}
			return intVal(IntLit(int64(d.run(e.Args[1].Str))))
		}
		sv := arg(1)
		var a, o, n *Term
		switch sv.K {
		case VBytes:
			a, o, n = sv.Arr, sv.Off, sv.Len
		case VSlice:
			cur := env.State.Get("M$byte", ArrayS(IntS, ArrayS(IntS, IntS)))
			f.E.noteVars(cur)
			a, o, n = Select(cur, sv.Base), sv.Off, sv.Len
		default:
			f.E.fail("%s needs a bytes-mode string or []byte", name)
		}
		runAt := func(j *Term) *Term { return App(rule+"_run", IntS, a, o, n, j) }
		if name == "rrun" {
			return intVal(runAt(arg(2).X))
		}
		kb := Bound{Name: fmt.Sprintf("k!%d", f.E.nextQ()), S: IntS}
		kv := Var(kb.Name, IntS)
		j := Sub(kv, o)
		step := Implies(And(Le(o, kv), Lt(kv, Add(o, n))),
			And(Eq(runAt(Add(j, IntLit(1))), App(rule+"_delta", IntS, runAt(j), Select(a, kv))),
				Neq(runAt(Add(j, IntLit(1))), App(rule+"_dead", IntS))))
		q := Forall([]Bound{kb}, step)
		if q.Op == "forall" {
			q.Pat = []*Term{Select(a, kv)}
		}
		// the same step fact, triggered by an existing run term (lets the proof walk
		// forward over bytes the code has not read yet)
		jb := Bound{Name: fmt.Sprintf("j!%d", f.E.nextQ()), S: IntS}
		jv := Var(jb.Name, IntS)
		step2 := Implies(And(Le(IntLit(0), jv), Lt(jv, n)),
			And(Eq(runAt(Add(jv, IntLit(1))), App(rule+"_delta", IntS, runAt(jv), Select(a, Add(o, jv)))),
				Neq(runAt(Add(jv, IntLit(1))), App(rule+"_dead", IntS))))
		q2 := Forall([]Bound{jb}, step2)
		if q2.Op == "forall" {
			q2.Pat = []*Term{runAt(jv)}
		}
		if c := f.E.TopC; c != nil && c.Opts["runtrigger"] == "off" {
			q2 = True
		}
		return boolVal(And(Eq(runAt(IntLit(0)), App(rule+"_init", IntS)), q, q2, App(rule+"_acc", BoolS, runAt(n)), Ge(n, IntLit(0))))
	case "istype":
		a := arg(0)
		tn := e.Args[1].String()
		ptr := false
		if strings.HasPrefix(tn, "ptr_") {
			ptr = true
			tn = tn[4:]
		}
		n := f.E.P.Named[tn]
		if n == nil {
			f.E.fail("unknown type %s", tn)
		}
		var t types.Type = n
		if ptr {
			t = types.NewPointer(n)
		}
		return boolVal(Eq(a.Tag, IntLit(int64(typeTag(t)))))
	case "isnil":
		a := arg(0)
		switch a.K {
		case VIface:
			return boolVal(Eq(a.Tag, IntLit(0)))
		case VSlice:
			return boolVal(Eq(a.Base, IntLit(0)))
		case VScalar:
			return boolVal(Eq(a.X, IntLit(0)))
		case VFunc:
			return boolVal(Eq(f.funcTerm(a), IntLit(0)))
		}
	case "fresh":
		// fresh(e): the current value of e was not allocated in the old state (function entry; for a callee's contract: the call)
		a := arg(0)
		al0 := env.Old.Get(allocKey, allocSort)
		f.E.noteVars(al0)
		return boolVal(Not(allocatedIn(al0, a.X)))
	case "alloc":
		a := arg(0)
		al := env.State.Get(allocKey, allocSort)
		f.E.noteVars(al)
		return boolVal(allocatedIn(al, a.X))
	case "inv":
		// inv(x) / inv(x, label): the type invariant(s) of x's struct type, instantiated for x
		a := arg(0)
		n := namedStructOf(a.T)
		if n == nil {
			f.E.fail("inv(): %s is not a pointer to a named struct", e.Args[0])
		}
		tc := f.E.typeContractFor(n)
		if tc == nil {
			f.E.fail("inv(): no type contract for %s", n)
		}
		nenv := *env
		nenv.Vars = map[string]*Val{"self": a}
		nenv.Bound = env.Bound
		nenv.Callee = &FuncContract{}
		var cs []*Term
		for _, cl := range tc.Invariants {
			if len(e.Args) > 1 {
				match := false
				for _, l := range e.Args[1:] {
					if l.Name == cl.Label {
						match = true
					}
				}
				if !match {
					continue
				}
			}
			cs = append(cs, f.evalBool(cl.E, &nenv))
		}
		if len(cs) == 0 {
			f.E.fail("inv(): no invariant selected by %s", e)
		}
		return boolVal(And(cs...))
	case "framed":
		// framed(s): every backing array with s's element type that was allocated at
		// entry, other than s's own, still has its entry contents (a loop-level frame)
		sv := arg(0)
		if sv.K != VSlice {
			f.E.fail("framed() needs a slice")
		}
		key, ls := f.elemLeaves(sv.T)
		alloc0 := entryVar(allocKey, allocSort)
		ob := Bound{Name: fmt.Sprintf("o!fr%d", f.E.nextQ()), S: IntS}
		ov := Var(ob.Name, IntS)
		var cs []*Term
		for _, l := range ls {
			srt := ArrayS(IntS, ArrayS(IntS, l.sort))
			cur := env.State.Get(key+l.path, srt)
			old := entryVar(key+l.path, srt)
			f.E.noteVars(cur)
			f.E.noteVars(old)
			cs = append(cs, Forall([]Bound{ob}, Implies(And(allocatedIn(alloc0, ov), Neq(ov, sv.Base)), Eq(Select(cur, ov), Select(old, ov)))))
		}
		return boolVal(And(cs...))
	case "unchanged":
		nenv := *env
		nenv.State = env.Old
		a, b := arg(0), f.evalC(e.Args[0], &nenv)
		return boolVal(f.valEq(a, b, a.T))
	case "int":
		return intVal(arg(0).X)
	case "visited":
		// visited(k) in a range-over-map loop: the (single) active visited set
		k := arg(0)
		var key string
		var ks *Sort
		n := 0
		for rv, rs := range f.ranges {
			if rs.kind != "map" {
				continue
			}
			// prefer the range whose iterator is advanced in the header of the current loop
			if env.Loop != nil && env.Loop.hdr != nil {
				mine := false
				if rg, ok := rv.(*ssa.Range); ok {
					for _, r := range *rg.Referrers() {
						if nx, ok := r.(*ssa.Next); ok && nx.Block() == env.Loop.hdr {
							mine = true
						}
					}
				}
				if mine {
					key, ks, n = rs.visKey, rs.ksort, 1
					break
				}
				continue
			}
			key, ks = rs.visKey, rs.ksort
			n++
		}
		if n != 1 {
			f.E.fail("visited() needs a range-over-map loop (the current loop, or the only one of the function); found %d", n)
		}
		v := env.State.Get(key, ArrayS(ks, BoolS))
		return boolVal(Select(v, f.keyTerm(k)))
	case "nvisited":
		var key string
		n := 0
		for _, rs := range f.ranges {
			if rs.kind == "map" {
				key = rs.visKey
				n++
			}
		}
		if n != 1 {
			f.E.fail("nvisited() needs exactly one range-over-map in the function")
		}
		return intVal(env.State.Get(key+"$n", IntS))
	case "strpos":
		// position of the (single) range-over-string iterator
		for _, rs := range f.ranges {
			if rs.kind == "string" {
				return intVal(env.State.Get(rs.visKey, IntS))
			}
		}
		f.E.fail("strpos(): no range over string")
	}
	// spec function
	if f.E.P.Spec != nil {
		if sym, ok := f.E.P.Spec.Syms[name]; ok {
			f.E.Uses[sym.Lib] = true
			var ts []*Term
			for i := range e.Args {
				v := arg(i)
				if v.K == VAddr {
					f.E.fail("address passed to spec function %s", name)
				}
				ts = append(ts, v.leaves()...)
			}
			if len(ts) != len(sym.Args) {
				f.E.fail("spec function %s expects %d leaf arguments, got %d", name, len(sym.Args), len(ts))
			}
			for i, t := range ts {
				if t.S.K == SInt && sym.Args[i].K == SReal {
					ts[i] = toReal(t)
				} else if !sameSort(t.S, sym.Args[i]) {
					f.E.fail("spec function %s argument %d: sort %s, expected %s", name, i+1, t.S, sym.Args[i])
				}
			}
			return &Val{K: VScalar, X: App(name, sym.Res, ts...)}
		}
	}
	f.E.fail("unknown function %s in contract", name)
	return nil
}


// detApply: the deterministic abstraction of a function: an uninterpreted function of its argument leaves.
func (f *Frame) detApply(key, symbol string, args []*Val) *Val {
	e := f.E
	var rt types.Type
	pick := func(rs *types.Tuple) types.Type {
		if rs.Len() == 1 {
			return rs.At(0).Type()
		}
		if rs.Len() == 0 {
			e.fail("fn(%s): function has no result", key)
		}
		return rs
	}
	if fn := e.P.ByKey[key]; fn != nil {
		rt = pick(fn.Signature.Results())
	} else if m := e.P.ifaceMethod(key); m != nil {
		rt = pick(m.Type().(*types.Signature).Results())
	} else {
		e.fail("fn(%s): unknown function", key)
	}
	if symbol == key {
		e.Assumes["deterministic abstraction of "+key+": its result is a function of its arguments (the heap it reads is not changed between the compared calls)"] = true
	} else {
		e.Assumes["abstraction "+symbol+" of "+key+": its result is a function of the listed arguments only"] = true
	}
	// parameter types (receiver first), to box a concrete value passed where an interface is expected
	var ptypes []types.Type
	if fn := e.P.ByKey[key]; fn != nil {
		for _, prm := range fn.Params {
			ptypes = append(ptypes, prm.Type())
		}
	} else if m := e.P.ifaceMethod(key); m != nil {
		sig := m.Type().(*types.Signature)
		if sig.Recv() != nil {
			ptypes = append(ptypes, sig.Recv().Type())
		}
		for i := 0; i < sig.Params().Len(); i++ {
			ptypes = append(ptypes, sig.Params().At(i).Type())
		}
	}
	var ts []*Term
	var sorts []*Sort
	for ai, a := range args {
		if a.K == VAddr {
			e.fail("fn(%s): address argument", key)
		}
		if ai < len(ptypes) && a.K == VScalar && a.T != nil && a.T != types.Typ[types.UntypedNil] {
			if _, want := ptypes[ai].Underlying().(*types.Interface); want {
				if _, isI := a.T.Underlying().(*types.Interface); !isI {
					ts = append(ts, IntLit(int64(typeTag(a.T))), a.X)
					sorts = append(sorts, IntS, IntS)
					continue
				}
			}
		}
		if a.K == VScalar && a.T == types.Typ[types.UntypedNil] {
			ts = append(ts, a.X)
			sorts = append(sorts, IntS)
			continue
		}
		for _, l := range a.leaves() {
			ts = append(ts, l)
			sorts = append(sorts, l.S)
		}
	}
	ls := leavesOf(rt, e.Mode)
	out := make([]*Term, len(ls))
	for i, l := range ls {
		name := fmt.Sprintf("fn$%s$%d", symbol, i)
		e.declareFunSorted(name, sorts, l.sort)
		out[i] = App(name, l.sort, ts...)
	}
	return valFromLeaves(rt, e.Mode, out)
}

func (p *Program) ifaceMethod(key string) *types.Func {
	k := strings.LastIndex(key, ".")
	if k < 0 {
		return nil
	}
	n := p.Named[key[:k]]
	if n == nil {
		return nil
	}
	it, ok := n.Underlying().(*types.Interface)
	if !ok {
		return nil
	}
	for i := 0; i < it.NumMethods(); i++ {
		if it.Method(i).Name() == key[k+1:] {
			return it.Method(i)
		}
	}
	return nil
}
