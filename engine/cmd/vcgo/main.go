package main

import (
	"flag"
	"fmt"
	"os"
	"path/filepath"
	"sort"
	"strings"
)

var verifDir = "/verif"
var repoDir = "/repo"

func contractFiles(repo string) []string {
	var out []string
	for _, d := range []string{"martian/core", "martian/syntax", "martian/util", "cmd/mrjob", "cmd/mrp"} {
		p := filepath.Join(repo, d, "zz_contracts_verif.go")
		if _, err := os.Stat(p); err == nil {
			out = append(out, p)
		}
	}
	more, _ := filepath.Glob(filepath.Join(verifDir, "spec", "*.contracts"))
	sort.Strings(more)
	return append(out, more...)
}

func loadAll() (*Program, error) {
	cs := NewContracts()
	for _, f := range contractFiles(repoDir) {
		if err := cs.LoadFile(f); err != nil {
			return nil, err
		}
	}
	spec, err := LoadSpecLib(filepath.Join(verifDir, "spec"))
	if err != nil {
		return nil, err
	}
	p, err := LoadProgram(repoDir, nil)
	if err != nil {
		return nil, err
	}
	p.Cs = cs
	p.Spec = spec
	rules, err := p.extractTokenRules()
	if err != nil {
		return nil, err
	}
	p.Rules = rules
	for _, name := range sortedKeys(rules) {
		if err := spec.AddLib("re_"+name, rules[name].smt()); err != nil {
			return nil, err
		}
	}
	return p, nil
}

func main() {
	if len(os.Args) < 2 {
		fmt.Fprintln(os.Stderr, "usage: vcgo verify|check|pin|list ...")
		os.Exit(2)
	}
	if v := os.Getenv("VERIF_DIR"); v != "" {
		verifDir = v
	}
	if v := os.Getenv("REPO_DIR"); v != "" {
		repoDir = v
	}
	switch os.Args[1] {
	case "verify":
		cmdVerify(os.Args[2:])
	case "check":
		os.Exit(cmdCheck(os.Args[2:]))
	case "list":
		cmdList(os.Args[2:])
	case "modset":
		p, err := loadAll()
		if err != nil {
			fmt.Println(err)
			os.Exit(2)
		}
		fn := p.ByKey[os.Args[2]]
		e := NewEnc(p, fn, &FuncContract{})
		// direct callees and whether their modsets contain the key
		want := ""
		if len(os.Args) > 3 {
			want = os.Args[3]
		}
		seen := map[string]bool{}
		for _, b := range fn.Blocks {
			for _, in := range b.Instrs {
				m := map[string]*Sort{}
				e.instrModKeys(in, m, false)
				if want == "" {
					continue
				}
				if _, ok := m[want]; ok && !seen[in.String()] {
					seen[in.String()] = true
					w := &who{params: map[int]bool{}}
					e.modsetOf(fn)
					e.classifyWrite(fn, in, want, w)
					fmt.Printf("   %s %s  other=%v fresh=%v params=%v\n", p.posString(in.Pos()), in.String(), w.other, w.fresh, w.params)
				}
			}
		}
		if want == "" {
			for _, k := range sortedKeys(e.modsetOf(fn)) {
				fmt.Println(k)
			}
		}
	case "deadblocks":
		cmdDeadBlocks(os.Args[2:])
	case "sweep":
		cmdSweep(os.Args[2:])
	case "maploops":
		p, err := loadAll()
		if err != nil {
			fmt.Println(err)
			os.Exit(2)
		}
		cmdMapLoops(p)
	case "fvtargets":
		p, err := loadAll()
		if err != nil {
			fmt.Println(err)
			os.Exit(2)
		}
		p.funcValueTargets(p.ByKey["core.Fork.step"].Signature)
		for _, k := range sortedKeys(p.fvTargets) {
			if len(os.Args) > 2 && !strings.Contains(k, os.Args[2]) {
				continue
			}
			fmt.Println(k, len(p.fvTargets[k]))
		}
	default:
		fmt.Fprintln(os.Stderr, "unknown command", os.Args[1])
		os.Exit(2)
	}
}

func cmdVerify(args []string) {
	fs := flag.NewFlagSet("verify", flag.ExitOnError)
	fn := fs.String("func", "", "function key")
	keep := fs.String("keep", "", "directory to keep SMT files in")
	timeout := fs.Int("timeout", 10, "per-query timeout (s)")
	verbose := fs.Bool("v", false, "verbose")
	fs.Parse(args)
	p, err := loadAll()
	if err != nil {
		fmt.Fprintln(os.Stderr, "load:", err)
		os.Exit(2)
	}
	scratch, _ := os.MkdirTemp("", "vcgo")
	defer os.RemoveAll(scratch)
	cfg := &SolverCfg{TimeoutS: *timeout, Scratch: scratch, Parallel: 16}
	if *keep != "" {
		os.MkdirAll(*keep, 0o755)
		cfg.Scratch = *keep
		cfg.KeepFiles = true
	}
	keys := strings.Split(*fn, ",")
	if *fn == "all" {
		keys = nil
		for _, k := range p.Cs.Order {
			if fc := p.Cs.Funcs[k]; !fc.Trusted && !fc.IsIface && !fc.Inline {
				keys = append(keys, k)
			}
		}
	}
	bad := 0
	for _, key := range keys {
		var e *Enc
		var err error
		if strings.HasPrefix(key, "lemma.") {
			err = fmt.Errorf("unknown lemma %s", key)
			for _, lm := range p.Cs.Lemmas {
				if lm.Name == strings.TrimPrefix(key, "lemma.") {
					e, err = VerifyLemma(p, lm)
				}
			}
		} else {
			e, err = VerifyFunc(p, key)
		}
		if err != nil {
			fmt.Println("ERROR", err)
			bad++
			continue
		}
		solveAll(e, cfg, key)
		n, ok := 0, 0
		for _, o := range e.obls {
			n++
			if o.Result == "unsat" {
				ok++
				if *verbose {
					fmt.Printf("  ok    %s [%s %.2fs]\n", o.Name, o.Solver, o.TimeS)
				}
			} else {
				fmt.Printf("  FAIL  %s => %s [%s] %s %v\n", o.Name, o.Result, o.Solver, o.Where, o.Extra)
				if *verbose && o.Model != "" {
					fmt.Println(indent(summariseModel(o.Model), "        "))
				}
			}
		}
		if len(e.StaleLoops) > 0 {
			fmt.Printf("  STALE  contract names loop(s) %v but the function has no such loop\n", e.StaleLoops)
			bad++
		}
		for _, c := range e.Covers {
			if c.Result == "unsat" {
				fmt.Printf("  VACUOUS %s => %s\n", c.Name, c.Result)
				bad++
			}
		}
		fmt.Printf("%s: %d/%d obligations discharged, %d facts, %d decls\n", key, ok, n, len(e.facts), len(e.decls))
		if ok != n {
			bad++
		}
	}
	if bad > 0 {
		os.Exit(1)
	}
}

func indent(s, pre string) string {
	return pre + strings.ReplaceAll(strings.TrimRight(s, "\n"), "\n", "\n"+pre)
}

// keep only parameter-related lines of a model
func summariseModel(m string) string {
	var out []string
	lines := strings.Split(m, "\n")
	for i := 0; i < len(lines); i++ {
		l := lines[i]
		if strings.Contains(l, "define-fun") && (strings.Contains(l, "p_") || strings.Contains(l, "h_")) {
			out = append(out, strings.TrimSpace(l))
			if i+1 < len(lines) {
				out = append(out, "    "+strings.TrimSpace(lines[i+1]))
			}
		}
	}
	if len(out) > 60 {
		out = out[:60]
	}
	return strings.Join(out, "\n")
}

func cmdList(args []string) {
	cs := NewContracts()
	for _, f := range contractFiles(repoDir) {
		if err := cs.LoadFile(f); err != nil {
			fmt.Fprintln(os.Stderr, err)
			os.Exit(2)
		}
	}
	for _, k := range cs.Order {
		fc := cs.Funcs[k]
		fmt.Printf("%-60s %v trusted=%v\n", k, fc.Props, fc.Trusted)
	}
}

