package main

// Zero-annotation no-panic sweep (exploration aid, not a check): every function of a
// package that has no contract and no loop is given the empty contract `nopanic`; the
// obligations about indexing, slicing, division and explicit panics that the solvers
// refute to `sat` are listed.  A hit means "needs a precondition or is a defect": it is
// triaged by hand; nothing here is claimed.

import (
	"fmt"
	"os"
	"sort"
	"strings"

	"golang.org/x/tools/go/ssa"
)

func cmdSweep(args []string) {
	pkg := "syntax"
	if len(args) > 0 {
		pkg = args[0]
	}
	p, err := loadAll()
	if err != nil {
		fmt.Fprintln(os.Stderr, err)
		os.Exit(2)
	}
	scratch, _ := os.MkdirTemp("", "vcgo-sweep")
	defer os.RemoveAll(scratch)
	cfg := &SolverCfg{TimeoutS: 4, Scratch: scratch, Parallel: 16}
	var keys []string
	for k, fn := range p.ByKey {
		if !strings.HasPrefix(k, pkg+".") || fn.Synthetic != "" || len(fn.Blocks) == 0 || p.Cs.Funcs[k] != nil {
			continue
		}
		hasLoop := false
		for _, b := range fn.Blocks {
			for _, s := range b.Succs {
				if s.Dominates(b) {
					hasLoop = true
				}
			}
		}
		if hasLoop || fn.Parent() != nil {
			continue
		}
		keys = append(keys, k)
	}
	sort.Strings(keys)
	total, hits, errs := 0, 0, 0
	for _, k := range keys {
		fc := &FuncContract{Key: k, NoPanic: true, LoopInv: map[int][]*Clause{}, LoopDec: map[int][]*Clause{}, LoopMod: map[int][]*Clause{}, Opts: map[string]string{}, Props: []string{"sweep"}}
		p.Cs.Funcs[k] = fc
		var e *Enc
		var err error
		func() {
			defer func() {
				if r := recover(); r != nil {
					err = fmt.Errorf("engine: %v", r)
				}
			}()
			e, err = VerifyFunc(p, k)
		}()
		delete(p.Cs.Funcs, k)
		if err != nil || e == nil {
			errs++
			continue
		}
		var keep []*Obl
		for _, o := range e.obls {
			switch {
			case strings.Contains(o.Name, "/nopanic.index"), strings.Contains(o.Name, "/nopanic.slice"), strings.Contains(o.Name, "/nopanic.explicit"), strings.Contains(o.Name, "/nopanic.div"), strings.Contains(o.Name, "/nopanic.makeslice"):
				keep = append(keep, o)
			}
		}
		e.obls, e.Covers = keep, nil
		if len(keep) == 0 {
			continue
		}
		solveAll(e, cfg, k)
		for _, o := range keep {
			total++
			if o.Result == "sat" {
				hits++
				fmt.Printf("HIT  %s  %s\n", o.Name, o.Where)
			}
		}
	}
	fmt.Printf("sweep of %s: %d functions without loops or contracts, %d generation errors, %d bounds/panic obligations, %d with a counter-model\n", pkg, len(keys), errs, total, hits)
	_ = ssa.BuilderMode(0)
}
