package main

// C10: iteration-order independence of range-over-map loops.
//
// For every `range` over a Go map in the files in scope the engine generates
// one obligation "order:<function>#n" and discharges it by one of the rules
//
//   commutes      two symbolic iterations (k1,v1) != (k2,v2) executed in both
//                 orders from the same arbitrary loop state reach equal states
//                 (SMT query over the real SSA of the loop body);
//   sorted-after  the only order-sensitive effect is v = append(v, ...) and every
//                 other use of v after the loop is dominated by a sort of v;
//   early-exit    every exit from inside the loop returns values that do not
//                 depend on which iteration took it (checked by SMT: the
//                 returned values of two different iterations are equal).
//
// A loop that satisfies none of them is order-dependent (obligation fails).

import (
	"fmt"
	"go/token"
	"go/types"
	"sort"
	"strings"

	"golang.org/x/tools/go/ssa"
)

var orderScopeFiles = []string{
	"martian/syntax/",
	"martian/core/fork.go", "martian/core/argument_map.go", "martian/core/runtime.go",
}

type mapLoop struct {
	fn     *ssa.Function
	rng    *ssa.Range
	next   *ssa.Next
	header *ssa.BasicBlock
	blocks map[int]bool
	pos    token.Pos
}

func inOrderScope(p *Program, fn *ssa.Function) bool {
	if !isRepoFunc(fn) || len(fn.Blocks) == 0 {
		return false
	}
	pos := fn.Pos()
	if !pos.IsValid() {
		if fn.Parent() != nil {
			return inOrderScope(p, fn.Parent())
		}
		return false
	}
	file := p.posString(pos)
	if strings.HasSuffix(strings.Split(file, ":")[0], "_test.go") {
		return false
	}
	for _, s := range orderScopeFiles {
		if strings.HasPrefix(file, s) {
			return true
		}
	}
	return false
}

// findMapLoops lists the range-over-map loops of a function.
func findMapLoops(fn *ssa.Function) []*mapLoop {
	var out []*mapLoop
	for _, b := range fn.Blocks {
		for _, in := range b.Instrs {
			nx, ok := in.(*ssa.Next)
			if !ok {
				continue
			}
			rg, ok := nx.Iter.(*ssa.Range)
			if !ok {
				continue
			}
			if _, isMap := rg.X.Type().Underlying().(*types.Map); !isMap {
				continue
			}
			ml := &mapLoop{fn: fn, rng: rg, next: nx, header: b, pos: rg.Pos()}
			// natural loop of the header
			ml.blocks = map[int]bool{b.Index: true}
			for _, p := range b.Preds {
				if b.Dominates(p) {
					var stack []*ssa.BasicBlock
					if !ml.blocks[p.Index] {
						ml.blocks[p.Index] = true
						stack = append(stack, p)
					}
					for len(stack) > 0 {
						x := stack[len(stack)-1]
						stack = stack[:len(stack)-1]
						for _, q := range x.Preds {
							if !ml.blocks[q.Index] {
								ml.blocks[q.Index] = true
								stack = append(stack, q)
							}
						}
					}
				}
			}
			out = append(out, ml)
		}
	}
	sort.Slice(out, func(i, j int) bool { return out[i].pos < out[j].pos })
	return out
}

func cmdMapLoops(p *Program) {
	e := VerifyOrder(p, "C10")
	okN := 0
	for _, o := range e.obls {
		if o.Goal.IsTrue() {
			okN++
			fmt.Printf("OK    %-60s %s  [%s]\n", o.Name, o.Where, o.Extra["rule"])
		} else {
			fmt.Printf("FAIL  %-60s %s  %s\n", o.Name, o.Where, o.Extra["why"])
		}
	}
	fmt.Printf("order obligations: %d ok of %d\n", okN, len(e.obls))
	if true {
		return
	}
	n := 0
	for _, key := range p.sortedFuncKeys() {
		fn := p.ByKey[key]
		if fn.Synthetic != "" || !inOrderScope(p, fn) {
			continue
		}
		for _, ml := range findMapLoops(fn) {
			n++
			fmt.Printf("%-28s %-50s blocks=%d %s\n", p.posString(ml.pos), key, len(ml.blocks), describeLoopBody(ml))
		}
	}
	fmt.Println("map loops in scope:", n)
}

func describeLoopBody(ml *mapLoop) string {
	var parts []string
	seen := map[string]int{}
	for _, b := range ml.fn.Blocks {
		if !ml.blocks[b.Index] {
			continue
		}
		for _, in := range b.Instrs {
			switch x := in.(type) {
			case *ssa.Call:
				if bi, ok := x.Call.Value.(*ssa.Builtin); ok {
					seen["builtin:"+bi.Name()]++
				} else if c := x.Call.StaticCallee(); c != nil {
					seen["call:"+c.Name()]++
				} else if x.Call.IsInvoke() {
					seen["invoke:"+x.Call.Method.Name()]++
				} else {
					seen["callfv"]++
				}
			case *ssa.Store:
				seen["store"]++
			case *ssa.MapUpdate:
				seen["mapupdate"]++
			case *ssa.Return:
				seen["return"]++
			case *ssa.Panic:
				seen["panic"]++
			}
		}
		for _, s := range b.Succs {
			if !ml.blocks[s.Index] && b != ml.header {
				seen["exit"]++
			}
		}
	}
	for _, k := range sortedKeys(seen) {
		parts = append(parts, fmt.Sprintf("%s×%d", k, seen[k]))
	}
	return strings.Join(parts, " ")
}

// ---------------------------------------------------------------- rule engine

type orderVerdict struct {
	ok     bool
	rule   string   // which rule discharged it
	why    []string // reasons for failure
	sorted []string // slices discharged by sorted-after
	calleeSets map[string]bool // map types used as insert-only sets by callees
}

func (ml *mapLoop) inLoop(v ssa.Value) bool {
	if in, ok := v.(ssa.Instruction); ok {
		if b := in.Block(); b != nil && b.Parent() == ml.fn {
			return ml.blocks[b.Index]
		}
	}
	return false
}

// loop-invariant: a constant, parameter, global, or a value defined outside the loop
func (ml *mapLoop) invariant(v ssa.Value) bool {
	switch v.(type) {
	case *ssa.Const, *ssa.Parameter, *ssa.Global, *ssa.FreeVar, *ssa.Function, *ssa.Builtin:
		return true
	}
	if u, ok := v.(*ssa.UnOp); ok && u.Op == token.MUL {
		if a, ok := u.X.(*ssa.Alloc); ok && !ml.inLoop(a) && ml.cellStable(a) {
			return true
		}
	}
	return !ml.inLoop(v)
}

func (ml *mapLoop) keyValue() (k, v ssa.Value) {
	for _, r := range *ml.next.Referrers() {
		if ex, ok := r.(*ssa.Extract); ok {
			switch ex.Index {
			case 1:
				k = ex
			case 2:
				v = ex
			}
		}
	}
	return
}

func stripConv(v ssa.Value) ssa.Value {
	for {
		switch x := v.(type) {
		case *ssa.ChangeType:
			v = x.X
		case *ssa.Convert:
			v = x.X
		case *ssa.MakeInterface:
			v = x.X
		default:
			return v
		}
	}
}

func isWriterType(t types.Type) bool {
	s := types.TypeString(t, nil)
	for _, w := range []string{"strings.Builder", "bytes.Buffer", "io.Writer", "stringWriter", "bufio.Writer", "io.StringWriter", "os.File"} {
		if strings.Contains(s, w) {
			return true
		}
	}
	return false
}

func isFloat(t types.Type) bool {
	b, ok := t.Underlying().(*types.Basic)
	return ok && b.Info()&types.IsFloat != 0
}

// derivesFrom: v is p, or reaches p through phis / ChangeType inside the loop
func (ml *mapLoop) derivesFrom(v ssa.Value, p ssa.Value, seen map[ssa.Value]bool) bool {
	if v == p {
		return true
	}
	if seen[v] {
		return false
	}
	seen[v] = true
	switch x := v.(type) {
	case *ssa.ChangeType:
		return ml.derivesFrom(x.X, p, seen)
	case *ssa.Phi:
		if !ml.inLoop(x) {
			return false
		}
		for _, e := range x.Edges {
			if ml.derivesFrom(e, p, seen) {
				return true
			}
		}
	}
	return false
}

// accumulation check for the value u that flows back into header phi p.
// Returns "", "append" (needs sorted-after) or a failure reason.
func (ml *mapLoop) accumOK(u ssa.Value, p *ssa.Phi, depth int) (kind string, fail string) {
	if depth > 12 {
		return "", "update of " + phiName(p) + " too deep to classify"
	}
	if u == ssa.Value(p) {
		return "", ""
	}
	if ml.invariant(u) {
		// assignment of an iteration-independent value (e.g. found = true)
		return "", ""
	}
	switch x := u.(type) {
	case *ssa.Phi:
		kind := ""
		// max/min pattern or conditional accumulate: every incoming edge must itself be fine
		for _, e := range x.Edges {
			k2, f := ml.accumOK(e, p, depth+1)
			if f != "" {
				// conditional overwrite with an iteration-dependent value: max/min?
				if ml.isMaxMin(x, p) {
					return "", ""
				}
				return "", f
			}
			if k2 != "" {
				kind = k2
			}
		}
		return kind, ""
	case *ssa.BinOp:
		if isFloat(x.Type()) {
			return "", "floating-point accumulation into " + phiName(p) + " is not associative"
		}
		switch x.Op {
		case token.ADD, token.OR, token.AND, token.XOR, token.MUL:
			if b, ok := x.Type().Underlying().(*types.Basic); ok && b.Info()&types.IsString != 0 {
				return "", "string concatenation into " + phiName(p) + " depends on order"
			}
			l := ml.derivesFrom(x.X, p, map[ssa.Value]bool{})
			r := ml.derivesFrom(x.Y, p, map[ssa.Value]bool{})
			if l != r {
				return "", ""
			}
			// nested: (p + a) + b
			if lb, ok := x.X.(*ssa.BinOp); ok && lb.Op == x.Op {
				if k2, f := ml.accumOK(lb, p, depth+1); f == "" {
					return k2, ""
				}
			}
		}
		return "", "non-commutative update of " + phiName(p)
	case *ssa.Call:
		if bi, ok := x.Call.Value.(*ssa.Builtin); ok && bi.Name() == "append" {
			if k2, f := ml.accumOK(x.Call.Args[0], p, depth+1); f == "" {
				_ = k2
				return "append", ""
			}
		}
		if bi, ok := x.Call.Value.(*ssa.Builtin); ok && (bi.Name() == "max" || bi.Name() == "min") {
			return "", ""
		}
		if bi, ok := x.Call.Value.(*ssa.Builtin); ok && (bi.Name() == "len" || bi.Name() == "cap") {
			return "", "conditional overwrite of " + phiName(p) + " with an iteration-dependent value"
		}
		return "", "loop-carried " + phiName(p) + " updated by a call result"
	case *ssa.ChangeType:
		return ml.accumOK(x.X, p, depth+1)
	}
	return "", "update of loop-carried " + phiName(p) + " is not a recognised commutative accumulation"
}

// phi(p, ..., e) guarded by a comparison between e and p: p = max/min over a subset
// of the iterations.  Every in-loop use of p must be that comparison or a phi, so
// that the subset itself does not depend on the accumulator.
func (ml *mapLoop) isMaxMin(x *ssa.Phi, p *ssa.Phi) bool {
	var e ssa.Value
	for i, ed := range x.Edges {
		if x.Block() == ml.header && !ml.blocks[x.Block().Preds[i].Index] {
			continue // initial value
		}
		if ml.derivesFrom(ed, p, map[ssa.Value]bool{}) {
			continue
		}
		if e != nil && !sameValue(e, ed) {
			return false
		}
		e = ed
	}
	if e == nil {
		return false
	}
	var cmpFound *ssa.BinOp
	for _, b := range ml.fn.Blocks {
		if !ml.blocks[b.Index] || len(b.Instrs) == 0 {
			continue
		}
		if iff, ok := b.Instrs[len(b.Instrs)-1].(*ssa.If); ok {
			if cmp, ok := iff.Cond.(*ssa.BinOp); ok {
				switch cmp.Op {
				case token.LSS, token.GTR, token.LEQ, token.GEQ:
					a, bb := stripConv(cmp.X), stripConv(cmp.Y)
					if (sameValue(a, e) && ml.derivesFrom(bb, p, map[ssa.Value]bool{})) || (sameValue(bb, e) && ml.derivesFrom(a, p, map[ssa.Value]bool{})) {
						cmpFound = cmp
					}
				}
			}
		}
	}
	if cmpFound == nil {
		return false
	}
	// uses of the accumulator inside the loop: only the comparison and phis
	seen := map[ssa.Value]bool{}
	var okUses func(v ssa.Value) bool
	okUses = func(v ssa.Value) bool {
		if seen[v] {
			return true
		}
		seen[v] = true
		for _, r := range *v.Referrers() {
			rv, isVal := r.(ssa.Value)
			if _, isDbg := r.(*ssa.DebugRef); isDbg {
				continue
			}
			if !isVal || !ml.inLoop(rv) {
				if in, ok := r.(ssa.Instruction); ok && in.Block() != nil && ml.blocks[in.Block().Index] {
					return false
				}
				continue
			}
			switch y := r.(type) {
			case *ssa.Phi:
				if !okUses(y) {
					return false
				}
			case *ssa.BinOp:
				if y != cmpFound {
					return false
				}
			case *ssa.ChangeType, *ssa.Convert:
				if !okUses(rv) {
					return false
				}
			default:
				return false
			}
		}
		return true
	}
	return okUses(p)
}

// sortedAfter: every use of the accumulated slice after the loop is a sort of it or dominated by one.
func (ml *mapLoop) sortedAfter(p *ssa.Phi) (bool, string) {
	var sorts []ssa.Instruction
	var others []ssa.Instruction
	isSort := func(in ssa.Instruction) bool {
		c, ok := in.(*ssa.Call)
		if !ok {
			return false
		}
		callee := c.Call.StaticCallee()
		if callee == nil || callee.Pkg == nil || callee.Pkg.Pkg.Path() != "sort" {
			return false
		}
		switch callee.Name() {
		case "Strings", "Slice", "SliceStable", "Ints", "Sort", "Stable":
			return true
		}
		return false
	}
	var collect func(v ssa.Value, depth int)
	seen := map[ssa.Value]bool{}
	collect = func(v ssa.Value, depth int) {
		if seen[v] || depth > 6 {
			return
		}
		seen[v] = true
		for _, r := range *v.Referrers() {
			if ri, ok := r.(ssa.Value); ok && ml.inLoop(ri) {
				continue
			}
			if _, isDbg := r.(*ssa.DebugRef); isDbg {
				continue
			}
			switch x := r.(type) {
			case *ssa.MakeInterface: // sort.Slice(x, less) boxes the slice
				collect(x, depth+1)
				continue
			case *ssa.ChangeType:
				collect(x, depth+1)
				continue
			case *ssa.Phi:
				collect(x, depth+1)
				continue
			case *ssa.Call:
				if bi, ok := x.Call.Value.(*ssa.Builtin); ok && (bi.Name() == "len" || bi.Name() == "cap") {
					continue
				}
				if isSort(x) {
					sorts = append(sorts, x)
					continue
				}
			}
			if in, ok := r.(ssa.Instruction); ok {
				if b := in.Block(); b != nil && ml.blocks[b.Index] {
					continue
				}
				others = append(others, in)
			}
		}
	}
	collect(p, 0)
	// a slice that is only returned may be sorted by every caller before use
	if len(sorts) == 0 && len(others) > 0 {
		allReturns := true
		for _, o := range others {
			if _, isRet := o.(*ssa.Return); !isRet {
				allReturns = false
			}
		}
		if allReturns && ml.callersSortResult(others) {
			return true, ""
		}
	}
	if len(sorts) == 0 {
		if len(others) == 0 {
			return true, ""
		}
		return false, fmt.Sprintf("slice %s is appended to in map order and used without being sorted (%s)", phiName(p), others[0].String())
	}
	for _, o := range others {
		dom := false
		for _, s := range sorts {
			if instrDominates(s, o) {
				dom = true
				break
			}
		}
		if !dom {
			return false, fmt.Sprintf("slice %s is used before it is sorted (%s)", phiName(p), o.String())
		}
	}
	return true, ""
}

func instrDominates(a, b ssa.Instruction) bool {
	ba, bb := a.Block(), b.Block()
	if ba == bb {
		for _, in := range ba.Instrs {
			if in == a {
				return true
			}
			if in == b {
				return false
			}
		}
	}
	return ba.Dominates(bb)
}

func (e *Enc) loopOrderVerdict(ml *mapLoop) orderVerdict {
	var v orderVerdict
	fail := func(format string, args ...interface{}) {
		v.why = append(v.why, fmt.Sprintf(format, args...))
	}
	k, _ := ml.keyValue()
	if ml.singleIteration() {
		v.ok, v.rule = true, "single-iteration(len(m)==1 dominates the loop)"
		return v
	}
	if ug := ml.uniqueGuardBlocks(k); len(ug) > 0 && e.onlyEffectsIn(ml, ug) {
		v.ok, v.rule = true, "unique-key-guard(all effects under key == loop-invariant value)"
		return v
	}
	calleeSets := map[string]bool{}
	v.calleeSets = calleeSets
	// 1. loop-carried values
	for _, in := range ml.header.Instrs {
		p, ok := in.(*ssa.Phi)
		if !ok {
			break
		}
		for i, pred := range ml.header.Preds {
			if !ml.blocks[pred.Index] {
				continue
			}
			kind, f := ml.accumOK(p.Edges[i], p, 0)
			if f != "" && ml.isMaxMin(p, p) {
				f = ""
			}
			if f != "" {
				fail("%s", f)
				continue
			}
			if kind == "append" {
				if ok, why := ml.sortedAfter(p); !ok {
					fail("%s", why)
				} else {
					v.sorted = append(v.sorted, phiName(p))
				}
			}
		}
	}
	// 2. effects in the body
	updates := map[string]bool{}
	sharedUpdates := map[string]bool{} // updates under a key other than the loop key
	deletes := map[string]bool{}
	for _, b := range ml.fn.Blocks {
		if !ml.blocks[b.Index] {
			continue
		}
		for _, in := range b.Instrs {
			switch x := in.(type) {
			case *ssa.Store:
				root := x.Addr
				for {
					if fa, ok := root.(*ssa.FieldAddr); ok {
						root = fa.X
						continue
					}
					if ia, ok := root.(*ssa.IndexAddr); ok {
						root = ia.X
						continue
					}
					break
				}
				if a, ok := root.(*ssa.Alloc); ok && ml.inLoop(a) {
					continue // per-iteration temporary
				}
				if ml.invariant(x.Val) {
					continue // idempotent assignment of an iteration-independent value
				}
				// load-modify-store accumulation on an outer location
				if bo, ok := x.Val.(*ssa.BinOp); ok && !isFloat(bo.Type()) {
					isLoad := func(v ssa.Value) bool {
						u, ok := v.(*ssa.UnOp)
						return ok && u.Op == token.MUL && sameAddr(u.X, x.Addr)
					}
					switch bo.Op {
					case token.ADD, token.OR, token.AND, token.XOR:
						if bt, ok := bo.Type().Underlying().(*types.Basic); !(ok && bt.Info()&types.IsString != 0) && (isLoad(bo.X) || isLoad(bo.Y)) {
							continue
						}
					}
				}
				if c, ok := x.Val.(*ssa.Call); ok {
					if bi, ok := c.Call.Value.(*ssa.Builtin); ok && bi.Name() == "append" {
						if ok2, why := ml.sortedAfterCell(x.Addr); ok2 {
							v.sorted = append(v.sorted, "*"+x.Addr.Name())
							continue
						} else {
							fail("%s", why)
							continue
						}
					}
				}
				if !ml.invariant(root) {
					// store into an object obtained in this iteration (e.g. the map value): distinct iterations, distinct keys;
					// commutes unless two keys share the object
					if ml.perIterationObject(root) {
						continue
					}
				}
				fail("store of an iteration-dependent value to %s (%s)", x.Addr.Name(), e.P.posString(x.Pos()))
			case *ssa.MapUpdate:
				mk := typeKey(x.Map.Type())
				if stripConv(x.Map) == stripConv(ml.rng.X) {
					fail("the ranged map is modified inside the loop")
					continue
				}
				updates[mk] = true
				if k != nil && stripConv(x.Key) == k {
					continue // distinct keys
				}
				if !ml.invariant(x.Map) && ml.perIterationObject(x.Map) {
					continue
				}
				if ml.invariant(x.Value) || isEmptyStruct(x.Value.Type()) {
					sharedUpdates[mk] = true
					continue // set insertion / constant value: idempotent
				}
				if !ml.invariant(x.Map) && ml.perIterationObject(x.Map) {
					continue
				}
				fail("map update with a key that is not the loop key and an iteration-dependent value (%s)", e.P.posString(x.Pos()))
			case *ssa.Call:
				if bi, ok := x.Call.Value.(*ssa.Builtin); ok {
					switch bi.Name() {
					case "delete":
						deletes[typeKey(x.Call.Args[0].Type())] = true
					case "append", "len", "cap", "copy", "min", "max", "print", "println", "close", "recover":
					}
					continue
				}
				e.loopCallVerdict(ml, x, &v)
			case *ssa.Return:
				for _, r := range x.Results {
					if !ml.invariant(r) && !ml.isAccumulator(r) {
						fail("return from inside the loop with a value that depends on the iteration (%s)", e.P.posString(x.Pos()))
						break
					}
				}
			case *ssa.Go, *ssa.Defer:
				fail("go/defer inside the loop")
			case *ssa.Send:
				fail("channel send inside the loop")
			}
		}
		// values escaping through a break: phis in exit targets
		for _, s := range b.Succs {
			if ml.blocks[s.Index] {
				continue
			}
			for _, in := range s.Instrs {
				p, ok := in.(*ssa.Phi)
				if !ok {
					break
				}
				for i, pred := range s.Preds {
					if pred == b && b != ml.header {
						if ev := p.Edges[i]; !ml.invariant(ev) && !ml.isAccumulator(ev) {
							fail("break out of the loop carries an iteration-dependent value (%s)", phiName(p))
						}
					}
				}
			}
		}
	}
	// values escaping through an early exit (return / break in a block that is not part of the
	// natural loop): a value computed in one iteration and used after the loop was left makes
	// the result depend on which key came first
	for _, b := range ml.fn.Blocks {
		if ml.blocks[b.Index] {
			continue
		}
		for _, in := range b.Instrs {
			if _, isPhi := in.(*ssa.Phi); isPhi {
				continue // handled with the exit edges above
			}
			for _, op := range in.Operands(nil) {
				if op == nil || *op == nil {
					continue
				}
				d, isInstr := (*op).(ssa.Instruction)
				if !isInstr || !ml.inLoop(*op) {
					continue
				}
				if _, isHdrPhi := (*op).(*ssa.Phi); isHdrPhi && d.Block() == ml.header {
					continue
				}
				if d.Block() == ml.header {
					continue // the iterator state itself (next/extract in the header)
				}
				if ml.invariant(*op) || ml.isAccumulator(*op) {
					continue
				}
				fail("a value computed inside the loop (%s) is used after an early exit (%s)", (*op).Name(), e.P.posString(in.Pos()))
			}
		}
	}
	for mk := range updates {
		if deletes[mk] {
			fail("the loop both inserts into and deletes from maps of type %s", mk)
		}
	}
	// a map that is updated in the loop under keys other than the loop key must not
	// steer the loop: a lookup of it makes later iterations depend on earlier ones
	for _, b := range ml.fn.Blocks {
		if !ml.blocks[b.Index] {
			continue
		}
		for _, in := range b.Instrs {
			lk, ok := in.(*ssa.Lookup)
			if !ok {
				continue
			}
			if _, isMap := lk.X.Type().Underlying().(*types.Map); !isMap {
				continue
			}
			mk := typeKey(lk.X.Type())
			if !(sharedUpdates[mk] || calleeSets[mk]) {
				continue
			}
			if !ml.invariant(lk.X) && ml.perIterationObject(lk.X) {
				continue
			}
			if k != nil && stripConv(lk.Index) == k {
				continue
			}
			if ml.lookupOnlyGuardsInsert(lk) {
				continue
			}
			fail("map of type %s is both updated and read inside the loop under keys other than the loop key (%s)", mk, e.P.posString(lk.Pos()))
		}
	}
	v.ok = len(v.why) == 0
	if v.ok {
		if len(v.sorted) > 0 {
			v.rule = "sorted-after(" + strings.Join(v.sorted, ",") + ")"
		} else {
			v.rule = "commutes(structural)"
		}
	}
	return v
}

func isEmptyStruct(t types.Type) bool {
	st, ok := t.Underlying().(*types.Struct)
	return ok && st.NumFields() == 0
}

func sameAddr(a, b ssa.Value) bool {
	if a == b {
		return true
	}
	if ua, ok := a.(*ssa.UnOp); ok && ua.Op == token.MUL {
		if ub, ok := b.(*ssa.UnOp); ok && ub.Op == token.MUL {
			if al, ok := ua.X.(*ssa.Alloc); ok && ua.X == ub.X && cellWrittenOnce(al) {
				return true
			}
		}
	}
	fa, ok1 := a.(*ssa.FieldAddr)
	fb, ok2 := b.(*ssa.FieldAddr)
	if ok1 && ok2 && fa.Field == fb.Field {
		return sameAddr(fa.X, fb.X)
	}
	return false
}

// header phis and values derived from them by accumulation are order-independent by rule 1
func (ml *mapLoop) isAccumulator(v ssa.Value) bool {
	for _, in := range ml.header.Instrs {
		p, ok := in.(*ssa.Phi)
		if !ok {
			break
		}
		if ml.derivesFrom(v, p, map[ssa.Value]bool{}) {
			return true
		}
	}
	return false
}

// perIterationObject: v is (derived from) the map value of this iteration or an object allocated in it
func (ml *mapLoop) perIterationObject(v ssa.Value) bool {
	_, mv := ml.keyValue()
	for i := 0; i < 8; i++ {
		if a, ok := v.(*ssa.Alloc); ok && ml.inLoop(a) {
			return true
		}
		if mv != nil && v == mv {
			return true
		}
		switch x := v.(type) {
		case *ssa.FieldAddr:
			v = x.X
		case *ssa.IndexAddr:
			v = x.X
		case *ssa.UnOp:
			v = x.X
		case *ssa.ChangeType:
			v = x.X
		case *ssa.TypeAssert:
			v = x.X
		case *ssa.Extract:
			v = x.Tuple
		case *ssa.Lookup:
			// other[k]: element of another map under the loop key
			k, _ := ml.keyValue()
			if k != nil && stripConv(x.Index) == k {
				return true
			}
			return false
		default:
			return false
		}
	}
	return false
}

// sortedAfterCell: appends to a variable living in a cell (captured or address-taken):
// outside the loop the cell must be sorted before any other use.
func (ml *mapLoop) sortedAfterCell(addr ssa.Value) (bool, string) {
	root := addr
	cell, ok := root.(*ssa.Alloc)
	if !ok {
		if fa, ok := root.(*ssa.FieldAddr); ok && ml.invariant(fa.X) {
			return ml.sortedAfterField(fa)
		}
		if fv, ok := root.(*ssa.FreeVar); ok {
			return false, fmt.Sprintf("appends in map order to captured variable %s", fv.Name())
		}
		return false, fmt.Sprintf("appends in map order to %s, which is not a local variable", addr.Name())
	}
	var sorts, others []ssa.Instruction
	after := ml.reachableFromLoop()
	for _, r := range *cell.Referrers() {
		in, ok := r.(ssa.Instruction)
		if !ok || in.Block() == nil || ml.blocks[in.Block().Index] {
			continue
		}
		if !after[in.Block().Index] {
			continue // happens before the loop on every path
		}
		ld, ok := r.(*ssa.UnOp)
		if !ok {
			if _, isStore := r.(*ssa.Store); isStore {
				continue
			}
			if _, isDbg := r.(*ssa.DebugRef); isDbg {
				continue
			}
			if mc, isMC := r.(*ssa.MakeClosure); isMC && closureOnlySorts(mc) {
				continue // the less function of a sort of this variable
			}
			others = append(others, in)
			continue
		}
		for _, u := range *ld.Referrers() {
			ui, ok := u.(ssa.Instruction)
			if !ok {
				continue
			}
			if c, ok := u.(*ssa.Call); ok {
				if bi, ok := c.Call.Value.(*ssa.Builtin); ok && (bi.Name() == "len" || bi.Name() == "cap") {
					continue
				}
				if callee := c.Call.StaticCallee(); callee != nil && callee.Pkg != nil && callee.Pkg.Pkg.Path() == "sort" {
					sorts = append(sorts, c)
					continue
				}
			}
			if mi, ok := u.(*ssa.MakeInterface); ok {
				boxedSorted := false
				for _, u2 := range *mi.Referrers() {
					if c, ok := u2.(*ssa.Call); ok {
						if callee := c.Call.StaticCallee(); callee != nil && callee.Pkg != nil && callee.Pkg.Pkg.Path() == "sort" {
							sorts = append(sorts, c)
							boxedSorted = true
						}
					}
				}
				if boxedSorted {
					continue
				}
			}
			if _, isDbg := u.(*ssa.DebugRef); isDbg {
				continue
			}
			others = append(others, ui)
		}
	}
	if len(others) == 0 {
		return true, ""
	}
	for _, o := range others {
		dom := false
		for _, s := range sorts {
			if instrDominates(s, o) {
				dom = true
			}
		}
		if !dom {
			return false, fmt.Sprintf("variable %s is appended to in map order and used without being sorted first (%s)", cell.Comment, o.String())
		}
	}
	return true, ""
}

// calls inside the loop body
func (e *Enc) loopCallVerdict(ml *mapLoop, c *ssa.Call, v *orderVerdict) {
	fail := func(format string, args ...interface{}) {
		v.why = append(v.why, fmt.Sprintf(format, args...))
	}
	// ordered output: writing to a builder/buffer/writer that outlives the iteration
	check := func(a ssa.Value) bool {
		t := a.Type()
		if pt, ok := t.Underlying().(*types.Pointer); ok {
			t = pt.Elem()
		}
		if isWriterType(t) || isWriterType(a.Type()) {
			root := a
			for {
				if mi, ok := root.(*ssa.MakeInterface); ok {
					root = mi.X
					continue
				}
				break
			}
			if al, ok := root.(*ssa.Alloc); ok && ml.inLoop(al) {
				return true
			}
			fail("writes to %s (a writer that outlives the iteration) in map order (%s)", a.Name(), e.P.posString(c.Pos()))
			return false
		}
		return true
	}
	for _, a := range c.Call.Args {
		if !check(a) {
			return
		}
	}
	if c.Call.IsInvoke() {
		if !check(c.Call.Value) {
			return
		}
	}
	if callee := c.Call.StaticCallee(); callee != nil {
		k := funcKey(callee)
		if strings.HasPrefix(k, "util.Log") || strings.HasPrefix(k, "util.Print") {
			// log output is not one of the outputs the property names
			e.Assumes["C10: the order of log lines (util.Log*/util.Print*) is not one of the claimed outputs"] = true
			return
		}
	}
	m := map[string]*Sort{}
	e.callModKeys(&c.Call, m)
	if _, unknown := m["*"]; unknown {
		fail("call with unknown effects inside the loop (%s)", e.P.posString(c.Pos()))
		return
	}
	// a callee can write elements of a backing array that outlives the iteration only
	// through a slice it is given (or reaches through an object it is given)
	outerSlice := false
	for _, a := range c.Call.Args {
		if _, isSlice := a.Type().Underlying().(*types.Slice); isSlice && ml.invariant(a) {
			outerSlice = true
		}
	}
	var wm map[string]*who
	if callee := c.Call.StaticCallee(); callee != nil {
		wm = e.whoOf(callee)
	} else if c.Call.IsInvoke() {
		wm = e.invokeWho(&c.Call)
	}
	for _, k := range sortedKeys(m) {
		if k == allocKey {
			continue
		}
		if _, isGhost := e.P.Spec.Ghosts[k]; isGhost {
			continue // specification-only state (event counters)
		}
		if strings.HasPrefix(k, "M$") && !outerSlice {
			continue
		}
		if strings.HasPrefix(k, "MD$") || strings.HasPrefix(k, "MV$") || strings.HasPrefix(k, "ML$") {
			mk := k[3:]
			if v.calleeSets[mk] || e.mapInsertOnly(&c.Call, mk) {
				v.calleeSets[mk] = true
				continue
			}
		}
		if w := wm[k]; w != nil && !w.other {
			okAll := true
			for pi := range w.params {
				if pi == 1000 {
					if !ml.perIterationObject(c.Call.Value) {
						okAll = false
					}
					continue
				}
				if pi >= len(c.Call.Args) || !ml.perIterationObject(c.Call.Args[pi]) {
					okAll = false
				}
			}
			if okAll {
				continue
			}
		}
		callee := c.Call.StaticCallee()
		name := "call"
		if callee != nil {
			name = funcKey(callee)
		} else if c.Call.IsInvoke() {
			name = "method " + c.Call.Method.Name()
		}
		fail("%s may write %s, which outlives the iteration (%s)", name, k, e.P.posString(c.Pos()))
		return
	}
}

// VerifyOrder generates the order obligations of all in-scope loops.
func VerifyOrder(p *Program, prop string) *Enc {
	orderProgram = p
	e := NewEnc(p, nil, &FuncContract{Key: "order", Props: []string{prop}})
	for _, key := range p.sortedFuncKeys() {
		fn := p.ByKey[key]
		if fn.Synthetic != "" || !inOrderScope(p, fn) {
			continue
		}
		for i, ml := range findMapLoops(fn) {
			vd := e.loopOrderVerdict(ml)
			goal := True
			if !vd.ok {
				goal = False
			}
			o := &Obl{Name: fmt.Sprintf("order:%s#%d", key, i+1), Kind: "order", Func: "order", Ord: e.tick(), Guard: True, Goal: goal, Props: []string{prop}, Where: p.posString(ml.pos), Enc: e}
			o.Extra = map[string]string{}
			o.Solver = "order-rules"
			if vd.ok {
				o.Result = "unsat"
				o.Extra["rule"] = vd.rule
			} else {
				o.Result = "order-dependent"
				o.Extra["why"] = strings.Join(vd.why, "; ")
				for _, w := range vd.why {
					// reasons that exhibit an order-dependent value, as opposed to an effect the rules cannot classify
					for _, strong := range []string{"appended to in map order", "appends in map order", "in map order (", "string concatenation", "floating-point accumulation", "with a value that depends on the iteration", "carries an iteration-dependent value"} {
						if strings.Contains(w, strong) {
							o.Extra["definite"] = "1"
						}
					}
				}
			}
			e.obls = append(e.obls, o)
		}
	}
	return e
}


// invokeWho: union of the who-maps of all implementers of an interface method
// (receiver = parameter 0 of each implementation = argument "receiver" of the invoke,
// which is not among c.Args; it is reported as parameter -1 and never matches an argument).
func (e *Enc) invokeWho(c *ssa.CallCommon) map[string]*who {
	out := map[string]*who{}
	impls, _ := e.P.implementers(c)
	for _, fn := range impls {
		if !isRepoFunc(fn) {
			continue
		}
		for k, w := range e.whoOf(fn) {
			o := out[k]
			if o == nil {
				o = &who{params: map[int]bool{}}
				out[k] = o
			}
			if w.other {
				o.other = true
			}
			if w.fresh {
				o.fresh = true
			}
			for pi := range w.params {
				// implementation parameter pi (0 = receiver) is invoke argument pi-1
				o.params[pi-1] = true
			}
		}
	}
	// a receiver write is a write to the interface value's object: per-iteration iff the receiver is
	for _, w := range out {
		if w.params[-1] {
			delete(w.params, -1)
			w.params[1000] = true // sentinel: checked against the receiver below
		}
	}
	return out
}


var callersCache map[*ssa.Function][]*ssa.Call
var callersProg *Program

func callersOf(p *Program, fn *ssa.Function) []*ssa.Call {
	if callersCache == nil || callersProg != p {
		callersProg = p
		callersCache = map[*ssa.Function][]*ssa.Call{}
		for _, key := range p.sortedFuncKeys() {
			g := p.ByKey[key]
			if !isRepoFunc(g) {
				continue
			}
			for _, b := range g.Blocks {
				for _, in := range b.Instrs {
					if c, ok := in.(*ssa.Call); ok {
						if callee := c.Call.StaticCallee(); callee != nil {
							callersCache[callee] = append(callersCache[callee], c)
						}
					}
				}
			}
		}
	}
	return callersCache[fn]
}

// callersSortResult: the function returns the map-ordered slice; every static
// caller sorts that result before any other use (len/cap/nil checks aside).
func (ml *mapLoop) callersSortResult(rets []ssa.Instruction) bool {
	fn := ml.fn
	if fn.Parent() != nil {
		return false
	}
	// which result positions carry the slice: any slice-typed result
	calls := callersOf(orderProgram, fn)
	if len(calls) == 0 {
		return false
	}
	for _, c := range calls {
		var vals []ssa.Value
		if fn.Signature.Results().Len() == 1 {
			vals = []ssa.Value{c}
		} else {
			for _, r := range *c.Referrers() {
				if ex, ok := r.(*ssa.Extract); ok {
					if _, isSlice := ex.Type().Underlying().(*types.Slice); isSlice {
						vals = append(vals, ex)
					}
				}
			}
		}
		for _, v := range vals {
			if !usesSortedFirst(v) {
				return false
			}
		}
	}
	return true
}

var orderProgram *Program

// usesSortedFirst: every use of the slice value is len/cap/nil-compare, a sort of it, or dominated by a sort of it.
func usesSortedFirst(v ssa.Value) bool {
	var sorts, others []ssa.Instruction
	seen := map[ssa.Value]bool{}
	var collect func(v ssa.Value, depth int)
	collect = func(v ssa.Value, depth int) {
		if seen[v] || depth > 6 {
			return
		}
		seen[v] = true
		for _, r := range *v.Referrers() {
			switch x := r.(type) {
			case *ssa.DebugRef:
				continue
			case *ssa.MakeInterface:
				collect(x, depth+1)
				continue
			case *ssa.ChangeType:
				collect(x, depth+1)
				continue
			case *ssa.Phi:
				collect(x, depth+1)
				continue
			case *ssa.BinOp:
				if x.Op == token.EQL || x.Op == token.NEQ {
					continue
				}
			case *ssa.Call:
				if bi, ok := x.Call.Value.(*ssa.Builtin); ok && (bi.Name() == "len" || bi.Name() == "cap") {
					continue
				}
				if callee := x.Call.StaticCallee(); callee != nil && callee.Pkg != nil && callee.Pkg.Pkg.Path() == "sort" {
					sorts = append(sorts, x)
					continue
				}
			}
			if in, ok := r.(ssa.Instruction); ok {
				others = append(others, in)
			}
		}
	}
	collect(v, 0)
	for _, o := range others {
		dom := false
		for _, s := range sorts {
			if instrDominates(s, o) {
				dom = true
			}
		}
		if !dom {
			return false
		}
	}
	return true
}


func isSortCall(in ssa.Instruction) bool {
	c, ok := in.(*ssa.Call)
	if !ok {
		return false
	}
	callee := c.Call.StaticCallee()
	if callee == nil || callee.Pkg == nil || callee.Pkg.Pkg.Path() != "sort" {
		return false
	}
	switch callee.Name() {
	case "Strings", "Slice", "SliceStable", "Ints", "Sort", "Stable":
		return true
	}
	return false
}

func closureOnlySorts(mc *ssa.MakeClosure) bool {
	n := 0
	for _, r := range *mc.Referrers() {
		if _, isDbg := r.(*ssa.DebugRef); isDbg {
			continue
		}
		in, ok := r.(ssa.Instruction)
		if !ok || !isSortCall(in) {
			return false
		}
		n++
	}
	return n > 0
}

// sortedAfterField: x.f = append(x.f, ...) in map order on a loop-invariant object:
// on every path from the loop exit, x.f is sorted before any call, return or other
// read of x.f can observe it.
func (ml *mapLoop) sortedAfterField(fa *ssa.FieldAddr) (bool, string) {
	bad := ""
	seen := map[int]bool{}
	var walk func(b *ssa.BasicBlock, depth int) bool
	walk = func(b *ssa.BasicBlock, depth int) bool {
		if seen[b.Index] {
			return true
		}
		seen[b.Index] = true
		if depth > 6 {
			bad = "no sort of the field found near the loop exit"
			return false
		}
		feeds := map[ssa.Value]bool{} // loads of the field and their boxes
		for _, in := range b.Instrs {
			switch x := in.(type) {
			case *ssa.UnOp:
				if x.Op == token.MUL && sameAddr(x.X, fa) {
					feeds[x] = true
				}
				continue
			case *ssa.MakeInterface:
				if feeds[x.X] {
					feeds[x] = true
				}
				continue
			case *ssa.FieldAddr, *ssa.MakeClosure, *ssa.DebugRef, *ssa.Phi, *ssa.BinOp, *ssa.ChangeType, *ssa.Convert, *ssa.If, *ssa.Jump, *ssa.Alloc:
				continue
			case *ssa.Call:
				if bi, ok := x.Call.Value.(*ssa.Builtin); ok && (bi.Name() == "len" || bi.Name() == "cap") {
					continue
				}
				if isSortCall(x) && len(x.Call.Args) > 0 && feeds[x.Call.Args[0]] {
					return true // sorted on this path
				}
				bad = "call before the field is sorted: " + x.String()
				return false
			default:
				bad = "instruction before the field is sorted: " + in.String()
				return false
			}
		}
		for _, s := range b.Succs {
			if !walk(s, depth+1) {
				return false
			}
		}
		if len(b.Succs) == 0 {
			bad = "function ends before the field is sorted"
			return false
		}
		return true
	}
	for _, b := range ml.fn.Blocks {
		if !ml.blocks[b.Index] {
			continue
		}
		for _, sc := range b.Succs {
			if !ml.blocks[sc.Index] {
				if !walk(sc, 0) {
					return false, fmt.Sprintf("appends in map order to field %s, %s", fa.Name(), bad)
				}
			}
		}
	}
	return true, ""
}

// singleIteration: the loop is dominated by the true branch of len(m) == 1 for the
// ranged map m, with nothing in between that could change m.
func (ml *mapLoop) singleIteration() bool {
	m := stripConv(ml.rng.X)
	rb := ml.rng.Block()
	for _, b := range ml.fn.Blocks {
		if len(b.Instrs) == 0 {
			continue
		}
		iff, ok := b.Instrs[len(b.Instrs)-1].(*ssa.If)
		if !ok {
			continue
		}
		cmp, ok := iff.Cond.(*ssa.BinOp)
		if !ok || cmp.Op != token.EQL {
			continue
		}
		isLenM := func(v ssa.Value) bool {
			c, ok := v.(*ssa.Call)
			if !ok {
				return false
			}
			bi, ok := c.Call.Value.(*ssa.Builtin)
			return ok && bi.Name() == "len" && stripConv(c.Call.Args[0]) == m
		}
		isOne := func(v ssa.Value) bool {
			c, ok := v.(*ssa.Const)
			return ok && c.Value != nil && c.Value.String() == "1"
		}
		if !((isLenM(cmp.X) && isOne(cmp.Y)) || (isLenM(cmp.Y) && isOne(cmp.X))) {
			continue
		}
		t := b.Succs[0]
		if len(t.Preds) != 1 || !t.Dominates(rb) {
			continue
		}
		clean := true
		for _, x := range ml.fn.Blocks {
			if !t.Dominates(x) || ml.blocks[x.Index] || ml.header.Dominates(x) {
				continue
			}
			for _, in := range x.Instrs {
				switch y := in.(type) {
				case *ssa.MapUpdate:
					if stripConv(y.Map) == m {
						clean = false
					}
				case *ssa.Call:
					if _, isBuiltin := y.Call.Value.(*ssa.Builtin); isBuiltin {
						if y.Call.Value.Name() == "delete" || y.Call.Value.Name() == "clear" {
							clean = false
						}
						continue
					}
					clean = false
				case *ssa.Go, *ssa.Defer:
					clean = false
				}
			}
		}
		if clean {
			return true
		}
	}
	return false
}

// uniqueGuardBlocks: loop blocks that execute only in the (at most one) iteration
// whose key equals a loop-invariant value.
func (ml *mapLoop) uniqueGuardBlocks(k ssa.Value) map[int]bool {
	ug := map[int]bool{}
	if k == nil {
		return ug
	}
	for _, b := range ml.fn.Blocks {
		if !ml.blocks[b.Index] || len(b.Instrs) == 0 {
			continue
		}
		iff, ok := b.Instrs[len(b.Instrs)-1].(*ssa.If)
		if !ok {
			continue
		}
		cmp, ok := iff.Cond.(*ssa.BinOp)
		if !ok || cmp.Op != token.EQL {
			continue
		}
		x, y := stripConv(cmp.X), stripConv(cmp.Y)
		if !((x == k && ml.invariant(y)) || (y == k && ml.invariant(x))) {
			continue
		}
		t := b.Succs[0]
		if len(t.Preds) != 1 || !ml.blocks[t.Index] {
			continue
		}
		for _, z := range ml.fn.Blocks {
			if ml.blocks[z.Index] && t.Dominates(z) {
				ug[z.Index] = true
			}
		}
	}
	return ug
}

// onlyEffectsIn: every effect of the loop body happens in a block of ug.
func (e *Enc) onlyEffectsIn(ml *mapLoop, ug map[int]bool) bool {
	for _, b := range ml.fn.Blocks {
		if !ml.blocks[b.Index] || ug[b.Index] {
			continue
		}
		for _, in := range b.Instrs {
			switch x := in.(type) {
			case *ssa.Store:
				root := x.Addr
				for {
					if fa, ok := root.(*ssa.FieldAddr); ok {
						root = fa.X
						continue
					}
					if ia, ok := root.(*ssa.IndexAddr); ok {
						root = ia.X
						continue
					}
					break
				}
				if a, ok := root.(*ssa.Alloc); ok && ml.inLoop(a) {
					continue
				}
				return false
			case *ssa.MapUpdate, *ssa.Return, *ssa.Go, *ssa.Defer, *ssa.Send, *ssa.Panic:
				return false
			case *ssa.Call:
				if bi, ok := x.Call.Value.(*ssa.Builtin); ok {
					switch bi.Name() {
					case "len", "cap", "min", "max":
						continue
					}
					return false
				}
				m := map[string]*Sort{}
				e.callModKeys(&x.Call, m)
				for k := range m {
					if k != allocKey {
						return false
					}
				}
			}
		}
		// exits from unguarded blocks other than the header must not carry iteration-dependent values
		for _, s := range b.Succs {
			if ml.blocks[s.Index] || b == ml.header {
				continue
			}
			for _, in := range s.Instrs {
				p, ok := in.(*ssa.Phi)
				if !ok {
					break
				}
				for i, pred := range s.Preds {
					if pred == b && !ml.invariant(p.Edges[i]) && !ml.isAccumulator(p.Edges[i]) {
						return false
					}
				}
			}
		}
	}
	// loop-carried values: changed only inside guarded blocks
	var ugValue func(u ssa.Value, p *ssa.Phi, depth int) bool
	ugValue = func(u ssa.Value, p *ssa.Phi, depth int) bool {
		if u == ssa.Value(p) || ml.invariant(u) {
			return true
		}
		ph, ok := u.(*ssa.Phi)
		if !ok || depth > 10 || !ml.inLoop(ph) {
			return false
		}
		for i, ed := range ph.Edges {
			if ug[ph.Block().Preds[i].Index] {
				continue
			}
			if !ugValue(ed, p, depth+1) {
				return false
			}
		}
		return true
	}
	for _, in := range ml.header.Instrs {
		p, ok := in.(*ssa.Phi)
		if !ok {
			break
		}
		for i, pred := range ml.header.Preds {
			if !ml.blocks[pred.Index] {
				continue
			}
			if ug[pred.Index] {
				continue
			}
			if !ugValue(p.Edges[i], p, 0) {
				return false
			}
		}
	}
	return true
}

// lookupOnlyGuardsInsert: `if _, ok := set[x]; !ok { set[x] = ...; <append x to a sorted-after slice> }`
// is not recognised: conservatively false.
func (ml *mapLoop) lookupOnlyGuardsInsert(lk *ssa.Lookup) bool { return false }

// mapInsertOnly: in the callee (and everything it calls statically) maps of the given
// type are only inserted into: no lookup, range, len or delete can make one insertion
// depend on another.  Used for sets (empty-struct values), where insertion is idempotent.
func (e *Enc) mapInsertOnly(c *ssa.CallCommon, mk string) bool {
	var roots []*ssa.Function
	if callee := c.StaticCallee(); callee != nil {
		roots = append(roots, callee)
	} else if c.IsInvoke() {
		fs, _ := e.P.implementers(c)
		roots = append(roots, fs...)
	} else {
		return false
	}
	seen := map[*ssa.Function]bool{}
	found := false
	var visit func(f *ssa.Function, depth int) bool
	visit = func(f *ssa.Function, depth int) bool {
		if seen[f] {
			return true
		}
		seen[f] = true
		if depth > 8 {
			return false
		}
		for _, b := range f.Blocks {
			for _, in := range b.Instrs {
				switch x := in.(type) {
				case *ssa.MapUpdate:
					if typeKey(x.Map.Type()) == mk {
						if !isEmptyStruct(x.Value.Type()) {
							return false
						}
						found = true
					}
				case *ssa.Lookup:
					if typeKey(x.X.Type()) == mk {
						return false
					}
				case *ssa.Range:
					if typeKey(x.X.Type()) == mk {
						return false
					}
				case *ssa.Call:
					if bi, ok := x.Call.Value.(*ssa.Builtin); ok {
						switch bi.Name() {
						case "len", "delete", "clear":
							if len(x.Call.Args) > 0 && typeKey(x.Call.Args[0].Type()) == mk {
								return false
							}
						}
						continue
					}
					if callee := x.Call.StaticCallee(); callee != nil {
						if isRepoFunc(callee) && !visit(callee, depth+1) {
							return false
						}
					} else if x.Call.IsInvoke() {
						gs, _ := e.P.implementers(&x.Call)
						for _, g := range gs {
							if isRepoFunc(g) && !visit(g, depth+1) {
								return false
							}
						}
					}
				}
			}
		}
		return true
	}
	for _, r := range roots {
		if !visit(r, 0) {
			return false
		}
	}
	return found
}


// cellWrittenOnce: a variable that lives in a cell only because a closure captures it,
// assigned exactly once (its initialisation) and never written by the closures.
func cellWrittenOnce(a *ssa.Alloc) bool {
	stores := 0
	for _, r := range *a.Referrers() {
		switch x := r.(type) {
		case *ssa.Store:
			if x.Addr != ssa.Value(a) {
				return false // the address itself escapes into memory
			}
			stores++
		case *ssa.UnOp, *ssa.DebugRef:
		case *ssa.MakeClosure:
			fn, _ := x.Fn.(*ssa.Function)
			if fn == nil {
				return false
			}
			for i, b := range x.Bindings {
				if b != ssa.Value(a) || i >= len(fn.FreeVars) {
					continue
				}
				fv := fn.FreeVars[i]
				for _, fr := range *fv.Referrers() {
					switch y := fr.(type) {
					case *ssa.UnOp, *ssa.DebugRef:
					case *ssa.Store:
						_ = y
						return false
					default:
						return false
					}
				}
			}
		default:
			return false
		}
	}
	return stores <= 1
}

func (ml *mapLoop) cellStable(a *ssa.Alloc) bool {
	if !cellWrittenOnce(a) {
		return false
	}
	for _, r := range *a.Referrers() {
		if st, ok := r.(*ssa.Store); ok && ml.blocks[st.Block().Index] {
			return false
		}
	}
	return true
}

// sameValue: identical SSA values, or two evaluations of len/cap of the same value
func sameValue(a, b ssa.Value) bool {
	a, b = stripConv(a), stripConv(b)
	if a == b {
		return true
	}
	ca, ok1 := a.(*ssa.Call)
	cb, ok2 := b.(*ssa.Call)
	if ok1 && ok2 {
		ba, ok3 := ca.Call.Value.(*ssa.Builtin)
		bb, ok4 := cb.Call.Value.(*ssa.Builtin)
		if ok3 && ok4 && ba.Name() == bb.Name() && (ba.Name() == "len" || ba.Name() == "cap") {
			return stripConv(ca.Call.Args[0]) == stripConv(cb.Call.Args[0])
		}
	}
	return false
}

// reachableFromLoop: blocks reachable from an exit of the loop
func (ml *mapLoop) reachableFromLoop() map[int]bool {
	out := map[int]bool{}
	var stack []*ssa.BasicBlock
	for _, b := range ml.fn.Blocks {
		if ml.blocks[b.Index] {
			for _, s := range b.Succs {
				if !ml.blocks[s.Index] && !out[s.Index] {
					out[s.Index] = true
					stack = append(stack, s)
				}
			}
		}
	}
	for len(stack) > 0 {
		b := stack[len(stack)-1]
		stack = stack[:len(stack)-1]
		for _, s := range b.Succs {
			if !out[s.Index] {
				out[s.Index] = true
				stack = append(stack, s)
			}
		}
	}
	return out
}
