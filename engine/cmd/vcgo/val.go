package main

// Symbolic values and the memory model.
//
// A Go value is a small tree whose leaves are SMT terms:
//   scalars (ints, bools, floats, opaque strings, refs to heap objects,
//   map/chan refs)                          -> X
//   bytes-mode strings                      -> Arr, Off, Len
//   slices                                  -> Base, Off, Len, Cap (Base = ref of backing array)
//   structs / tuples                        -> Fields
//   interfaces                              -> Tag, X (payload as Int)
//   addresses (Go-side only)                -> Addr
//
// Heap: one SMT array per (struct type, field leaf)  "F$T$f"   : Array Int L
//       one per (element type, leaf) for backing arrays "M$E$l" : Array Int (Array Int L)
//       cells for non-escaping locals are plain state variables "L$fn$n$l".

import (
	"fmt"
	"go/types"
	"sort"
	"strings"

	"golang.org/x/tools/go/ssa"
)

type VK int

const (
	VScalar VK = iota
	VBytes
	VSlice
	VStruct
	VTuple
	VIface
	VAddr
	VFunc
	VArr // array value [N]E: snapshot arrays Snap (one per leaf of the innermost element type, Array Int L) and the index Off of element 0 in them; nested arrays are linearised
)

type Val struct {
	K                   VK
	T                   types.Type
	X                   *Term
	Arr, Base, Off, Len *Term
	Cap                 *Term
	Tag                 *Term
	Fields              []*Val
	Snap                []*Term // VArr
	Addr                *Addr
	Fn                  *ssa.Function
	Bind                []*Val
	Ghost               map[string]*Term
	Lit                 *string // bytes-mode literal text, when known
	ByValue             bool    // reference to an embedded (by-value) struct: '==' compares values
	Boxed               *Val    // VIface made by a direct conversion of a pointer or slice: the boxed value (writes through it are modelled)
	Bound               *Term   // allocation counter at the last modification of the heap keys this value was loaded from
}

const (
	AObj   = iota // field path inside a heap object (Obj ref), key F$T or C$T
	AElem         // element (Base, Idx) of a backing array, key M$E
	ALocal        // non-escaping local: state variables keyed Key+Path
)

type Addr struct {
	Kind      int
	Obj       *Term
	Base, Idx *Term
	Key       string
	Path      string
	T         types.Type // pointee type
	ArrLen    int64      // for pointers to arrays ([N]E): N ; Base is the backing ref
}

type leaf struct {
	path string
	sort *Sort
	kind string // int, bool, real, string, ref, arr
	typ  types.Type
}

func pkgQualifier(p *types.Package) string {
	if p == nil {
		return ""
	}
	path := p.Path()
	const pre = "github.com/martian-lang/martian/"
	if strings.HasPrefix(path, pre) {
		rest := path[len(pre):]
		switch rest {
		case "martian/core":
			return "core"
		case "martian/syntax":
			return "syntax"
		case "martian/util":
			return "util"
		case "cmd/mrjob":
			return "mrjob"
		case "cmd/mrp":
			return "mrp"
		}
		return rest
	}
	return path
}

func typeKey(t types.Type) string {
	s := types.TypeString(t, pkgQualifier)
	s = strings.ReplaceAll(s, "|", "!")
	s = strings.ReplaceAll(s, " ", "_")
	if len(s) > 80 {
		// long anonymous struct types: shorten with a hash
		h := uint32(2166136261)
		for i := 0; i < len(s); i++ {
			h = (h ^ uint32(s[i])) * 16777619
		}
		s = fmt.Sprintf("%s~%08x", s[:40], h)
	}
	return s
}

func isOpaqueStruct(t types.Type) bool {
	n, ok := t.(*types.Named)
	if !ok {
		return false
	}
	st, isStruct := n.Underlying().(*types.Struct)
	if !isStruct {
		return false
	}
	p := n.Obj().Pkg()
	if p == nil {
		return false
	}
	if !strings.HasPrefix(p.Path(), "github.com/martian-lang/martian") {
		return true
	}
	// a repository type defined as a foreign struct (type WallClockTime time.Time):
	// its fields belong to another package
	for i := 0; i < st.NumFields(); i++ {
		if fp := st.Field(i).Pkg(); fp != nil && !strings.HasPrefix(fp.Path(), "github.com/martian-lang/martian") {
			return true
		}
	}
	return false
}

type Mode struct {
	Bytes bool // strings as byte arrays
}

func scalarSortOf(t types.Type, m Mode) (*Sort, string, bool) {
	switch u := t.Underlying().(type) {
	case *types.Basic:
		switch {
		case u.Info()&types.IsBoolean != 0:
			return BoolS, "bool", true
		case u.Info()&types.IsInteger != 0:
			return IntS, "int", true
		case u.Info()&types.IsFloat != 0:
			return RealS, "real", true
		case u.Info()&types.IsString != 0:
			if m.Bytes {
				return nil, "", false
			}
			return StringS, "string", true
		case u.Kind() == types.UnsafePointer:
			return IntS, "ref", true
		case u.Kind() == types.UntypedNil:
			return IntS, "ref", true
		}
	case *types.Pointer, *types.Map, *types.Chan, *types.Signature:
		return IntS, "ref", true
	}
	return nil, "", false
}

// arrInner: innermost (non-array) element type of a possibly nested array type and the
// number of such elements one value of t holds (1 for a non-array type).
func arrInner(t types.Type) (types.Type, int64) {
	n := int64(1)
	for {
		a, ok := t.Underlying().(*types.Array)
		if !ok {
			return t, n
		}
		n *= a.Len()
		t = a.Elem()
	}
}

// leavesOf enumerates the leaves of a value of type t.
func leavesOf(t types.Type, m Mode) []leaf {
	var out []leaf
	var rec func(t types.Type, pre string, depth int)
	rec = func(t types.Type, pre string, depth int) {
		if depth > 6 {
			panic("leavesOf: type too deep: " + t.String())
		}
		if s, k, ok := scalarSortOf(t, m); ok {
			out = append(out, leaf{pre, s, k, t})
			return
		}
		switch u := t.Underlying().(type) {
		case *types.Basic: // bytes-mode string
			out = append(out, leaf{pre + "$arr", ArrayS(IntS, IntS), "arr", t}, leaf{pre + "$off", IntS, "int", t}, leaf{pre + "$len", IntS, "int", t})
		case *types.Slice:
			out = append(out, leaf{pre + "$base", IntS, "ref", t}, leaf{pre + "$off", IntS, "int", t}, leaf{pre + "$len", IntS, "int", t}, leaf{pre + "$cap", IntS, "int", t})
		case *types.Struct:
			if isOpaqueStruct(t) {
				return
			}
			for i := 0; i < u.NumFields(); i++ {
				rec(u.Field(i).Type(), pre+"$"+u.Field(i).Name(), depth+1)
			}
		case *types.Interface:
			out = append(out, leaf{pre + "$tag", IntS, "int", t}, leaf{pre + "$pay", IntS, "int", t})
		case *types.Tuple:
			for i := 0; i < u.Len(); i++ {
				rec(u.At(i).Type(), fmt.Sprintf("%s$%d", pre, i), depth+1)
			}
		case *types.Array:
			// an array value is a snapshot of (a range of) a backing array of its innermost
			// element type: one array leaf per leaf of that type, plus the offset of element 0
			inner, _ := arrInner(t)
			for _, l := range leavesOf(inner, m) {
				out = append(out, leaf{pre + l.path + "$snap", ArrayS(IntS, l.sort), "snap", t})
			}
			out = append(out, leaf{pre + "$soff", IntS, "int", t})
		default:
			panic("leavesOf: unsupported type " + t.String())
		}
	}
	rec(t, "", 0)
	return out
}

// build a Val of type t from leaf terms (consumes from the slice).
func valFromLeaves(t types.Type, m Mode, ts []*Term) *Val {
	pos := 0
	var rec func(t types.Type) *Val
	rec = func(t types.Type) *Val {
		if _, _, ok := scalarSortOf(t, m); ok {
			v := &Val{K: VScalar, T: t, X: ts[pos]}
			pos++
			return v
		}
		switch u := t.Underlying().(type) {
		case *types.Basic:
			v := &Val{K: VBytes, T: t, Arr: ts[pos], Off: ts[pos+1], Len: ts[pos+2]}
			pos += 3
			return v
		case *types.Slice:
			v := &Val{K: VSlice, T: t, Base: ts[pos], Off: ts[pos+1], Len: ts[pos+2], Cap: ts[pos+3]}
			pos += 4
			return v
		case *types.Struct:
			v := &Val{K: VStruct, T: t}
			if isOpaqueStruct(t) {
				return v
			}
			for i := 0; i < u.NumFields(); i++ {
				v.Fields = append(v.Fields, rec(u.Field(i).Type()))
			}
			return v
		case *types.Interface:
			v := &Val{K: VIface, T: t, Tag: ts[pos], X: ts[pos+1]}
			pos += 2
			return v
		case *types.Tuple:
			v := &Val{K: VTuple, T: t}
			for i := 0; i < u.Len(); i++ {
				v.Fields = append(v.Fields, rec(u.At(i).Type()))
			}
			return v
		case *types.Array:
			inner, _ := arrInner(t)
			n := len(leavesOf(inner, m))
			v := &Val{K: VArr, T: t, Snap: append([]*Term(nil), ts[pos:pos+n]...), Off: ts[pos+n]}
			pos += n + 1
			return v
		}
		panic("valFromLeaves: unsupported type " + t.String())
	}
	return rec(t)
}

func (v *Val) leaves() []*Term {
	var out []*Term
	var rec func(v *Val)
	rec = func(v *Val) {
		switch v.K {
		case VScalar:
			out = append(out, v.X)
		case VBytes:
			out = append(out, v.Arr, v.Off, v.Len)
		case VSlice:
			out = append(out, v.Base, v.Off, v.Len, v.Cap)
		case VStruct, VTuple:
			for _, f := range v.Fields {
				rec(f)
			}
		case VIface:
			out = append(out, v.Tag, v.X)
		case VFunc:
			if v.X != nil {
				out = append(out, v.X)
			} else {
				out = append(out, IntLit(-1))
			}
		case VArr:
			out = append(out, v.Snap...)
			out = append(out, v.Off)
		case VAddr:
			panic("leaves of address value")
		}
	}
	rec(v)
	return out
}

func (v *Val) ghostKeys() []string {
	ks := make([]string, 0, len(v.Ghost))
	for k := range v.Ghost {
		ks = append(ks, k)
	}
	sort.Strings(ks)
	return ks
}

func (v *Val) String() string {
	switch v.K {
	case VScalar:
		return v.X.String()
	case VBytes:
		return fmt.Sprintf("bytes(%s,%s,%s)", v.Arr, v.Off, v.Len)
	case VSlice:
		return fmt.Sprintf("slice(%s,%s,%s,%s)", v.Base, v.Off, v.Len, v.Cap)
	case VStruct, VTuple:
		var fs []string
		for _, f := range v.Fields {
			fs = append(fs, f.String())
		}
		return "{" + strings.Join(fs, ", ") + "}"
	case VIface:
		return fmt.Sprintf("iface(%s,%s)", v.Tag, v.X)
	case VAddr:
		return fmt.Sprintf("addr(%d %s%s)", v.Addr.Kind, v.Addr.Key, v.Addr.Path)
	case VFunc:
		if v.Fn != nil {
			return "func " + v.Fn.Name()
		}
		return "funcval"
	}
	return "?"
}

// ---------------------------------------------------------------- state

// State maps heap-array / ghost / local-cell keys to their current term.
// Missing keys denote the entry value H0$key.
type State struct {
	m     map[string]*Term
	sorts map[string]*Sort
	bound map[string]*Term // allocation counter when the key was last set
}

func NewState() *State {
	return &State{m: map[string]*Term{}, sorts: map[string]*Sort{}, bound: map[string]*Term{}}
}

func (s *State) Clone() *State {
	n := NewState()
	for k, v := range s.m {
		n.m[k] = v
	}
	for k, v := range s.sorts {
		n.sorts[k] = v
	}
	for k, v := range s.bound {
		n.bound[k] = v
	}
	return n
}

// allocation counter in this state
func (s *State) next() *Term {
	if t, ok := s.m["ALLOC"]; ok {
		return t
	}
	return entryVar("ALLOC", IntS)
}

// upper bound for refs stored under key
func (s *State) boundOf(key string) *Term {
	if _, changed := s.m[key]; !changed {
		return entryVar("ALLOC", IntS)
	}
	if b, ok := s.bound[key]; ok {
		return b
	}
	return s.next()
}

func entryVar(key string, sort *Sort) *Term { return Var("H0$"+key, sort) }

func (s *State) Get(key string, sort *Sort) *Term {
	if t, ok := s.m[key]; ok {
		return t
	}
	if strings.HasPrefix(key, "DEFER$") {
		// "this defer statement has been executed": false on every path that did not pass it
		return False
	}
	return entryVar(key, sort)
}

func (s *State) Set(key string, sort *Sort, t *Term) {
	s.m[key] = t
	s.sorts[key] = sort
	s.bound[key] = s.next()
}

func zeroTerm(l leaf) *Term {
	switch l.sort.K {
	case SInt:
		return IntLit(0)
	case SBool:
		return False
	case SReal:
		return &Term{S: RealS, Name: "0.0"}
	case SString:
		return StrLit("")
	case SArray:
		return ConstArray(l.sort, IntLit(0))
	}
	panic("zeroTerm")
}

// type tags for interfaces
var typeTags = map[string]int{}
var typeTagNames []string

func typeTag(t types.Type) int {
	k := typeKey(t)
	if id, ok := typeTags[k]; ok {
		return id
	}
	id := len(typeTags) + 1
	typeTags[k] = id
	typeTagNames = append(typeTagNames, k)
	return id
}

// integer type ranges
func intRange(t types.Type) (lo, hi *Term, ok bool) {
	b, isb := t.Underlying().(*types.Basic)
	if !isb || b.Info()&types.IsInteger == 0 {
		return nil, nil, false
	}
	pow := func(n uint) *Term {
		x := BigLit(bigPow2(n))
		return x
	}
	switch b.Kind() {
	case types.Int8:
		return IntLit(-128), IntLit(127), true
	case types.Int16:
		return IntLit(-32768), IntLit(32767), true
	case types.Int32:
		return IntLit(-1 << 31), IntLit(1<<31 - 1), true
	case types.Int, types.Int64:
		return Neg(pow(63)), Sub(pow(63), IntLit(1)), true
	case types.Uint8:
		return IntLit(0), IntLit(255), true
	case types.Uint16:
		return IntLit(0), IntLit(65535), true
	case types.Uint32:
		return IntLit(0), IntLit(1<<32 - 1), true
	case types.Uint, types.Uint64, types.Uintptr:
		return IntLit(0), Sub(pow(64), IntLit(1)), true
	}
	return nil, nil, false
}

func intBits(t types.Type) (bits uint, signed bool, ok bool) {
	b, isb := t.Underlying().(*types.Basic)
	if !isb || b.Info()&types.IsInteger == 0 {
		return 0, false, false
	}
	switch b.Kind() {
	case types.Int8:
		return 8, true, true
	case types.Int16:
		return 16, true, true
	case types.Int32:
		return 32, true, true
	case types.Int, types.Int64:
		return 64, true, true
	case types.Uint8:
		return 8, false, true
	case types.Uint16:
		return 16, false, true
	case types.Uint32:
		return 32, false, true
	case types.Uint, types.Uint64, types.Uintptr:
		return 64, false, true
	}
	return 0, false, false
}
