package main

import (
	"hash/fnv"
	"sort"
	"bytes"
	"context"
	"fmt"
	"os"
	"os/exec"
	"path/filepath"
	"strings"
	"sync"
	"time"
)

type SolverCfg struct {
	TimeoutS  int
	Scratch   string
	Parallel  int
	AllAgree  bool // thorough: every solver must answer
	KeepFiles bool
}

func (e *Enc) header() string {
	var b strings.Builder
	b.WriteString(e.P.Spec.Prelude(e.Uses))
	for _, d := range e.funDecls {
		b.WriteString(d + "\n")
	}
	for _, n := range e.declOrder {
		fmt.Fprintf(&b, "(declare-const %s %s)\n", quoteSym(n), e.decls[n])
	}
	return b.String()
}

func factText(f *Fact) string {
	if f.Guard == nil || f.Guard.IsTrue() {
		return "(assert " + f.T.String() + ")"
	}
	return "(assert (=> " + f.Guard.String() + " " + f.T.String() + "))"
}

// Query text for one obligation (standalone).
func (e *Enc) query(o *Obl, models bool) string { return e.queryS(o, models, false) }

// queryS: sliced = leave out facts that belong to other paths (see relevantFacts)
func (e *Enc) queryS(o *Obl, models bool, sliced bool) string {
	return e.queryOpt(o, models, sliced, false)
}

func (e *Enc) queryOpt(o *Obl, models bool, sliced bool, skolem bool) string {
	return e.queryOpt2(o, models, sliced, skolem, false)
}

func (e *Enc) queryOpt2(o *Obl, models bool, sliced bool, skolem bool, inst bool) string {
	var b strings.Builder
	b.WriteString("; obligation " + o.Name + "\n")
	if models {
		b.WriteString("(set-option :produce-models true)\n")
	}
	b.WriteString("(set-logic ALL)\n")
	b.WriteString(e.header())
	for _, f := range e.relevantFacts(o, sliced) {
		b.WriteString(factText(f))
		b.WriteString("\n")
	}
	b.WriteString("(assert " + o.Guard.String() + ")\n")
	if o.Kind != "cover" {
		if skolem {
			// the quantified hypotheses instantiated at the goal's skolem constants (the induction
			// step of "forall k. P(k)" needs the hypothesis at the very k the goal is refuted
			// for; E-matching finds that instance only when the index terms happen to be
			// written alike)
			var sk []Bound
			for g := o.Goal; g.Op == "forall" && len(g.Args) == 1; g = g.Args[0] {
				sk = append(sk, g.Q...)
			}
			if len(sk) > 0 {
				for _, q := range sk {
					b.WriteString("(declare-const " + quoteSym(q.Name) + " " + q.S.String() + ")\n")
				}
				n := 0
				for _, f := range e.relevantFacts(o, sliced) {
					if !inst {
						break
					}
					for _, inst := range instancesAt(f.T, sk) {
						if n >= 60 {
							break
						}
						n++
						if f.Guard == nil || f.Guard.IsTrue() {
							b.WriteString("(assert " + inst.String() + ")\n")
						} else {
							b.WriteString("(assert (=> " + f.Guard.String() + " " + inst.String() + "))\n")
						}
					}
				}
			}
			b.WriteString(negatedGoalNoDecl(o.Goal))
		} else {
			b.WriteString("(assert (not " + o.Goal.String() + "))\n")
		}
	}
	b.WriteString("(check-sat)\n")
	if models {
		b.WriteString("(get-model)\n")
	}
	return b.String()
}

// querySkolem: the same query with the goal's leading universal quantifiers skolemised by hand.
func (e *Enc) querySkolem(o *Obl) string {
	return e.queryOpt(o, false, false, true)
}

// querySkolemInst: querySkolem plus the quantified hypotheses instantiated at the skolem constants.
func (e *Enc) querySkolemInst(o *Obl) string {
	return e.queryOpt2(o, false, false, true, true)
}

// negatedGoal: (assert (not G)); the leading universal quantifiers of G are skolemised by
// hand (their bound names are unique, so they are simply declared as constants): the solvers
// then match the quantified hypotheses against ground terms, which they often fail to do
// through their own skolemisation of not-forall.
func negatedGoal(g *Term) string {
	var b strings.Builder
	for g.Op == "forall" && len(g.Args) == 1 {
		for _, q := range g.Q {
			b.WriteString("(declare-const " + quoteSym(q.Name) + " " + q.S.String() + ")\n")
		}
		g = g.Args[0]
	}
	b.WriteString("(assert (not " + g.String() + "))\n")
	return b.String()
}

// Incremental script for all obligations of an encoder, in order.
func (e *Enc) script(obls []*Obl, timeoutMs int) string {
	var b strings.Builder
	b.WriteString("(set-option :timeout " + fmt.Sprint(timeoutMs) + ")\n")
	b.WriteString("(set-logic ALL)\n")
	b.WriteString(e.header())
	fi := 0
	for _, o := range obls {
		for fi < len(e.facts) && e.facts[fi].Ord < o.Ord {
			b.WriteString(factText(e.facts[fi]))
			b.WriteString("\n")
			fi++
		}
		b.WriteString("(push 1)\n")
		if o.Kind == "cover" {
			b.WriteString("(set-option :timeout 1500)\n")
		} else {
			b.WriteString("(set-option :timeout " + fmt.Sprint(timeoutMs) + ")\n")
		}
		b.WriteString("(assert " + o.Guard.String() + ")\n")
		if o.Kind != "cover" {
			b.WriteString("(assert (not " + o.Goal.String() + "))\n")
		}
		b.WriteString("(check-sat)\n(pop 1)\n")
	}
	return b.String()
}

type solverSpec struct {
	name string
	args func(file string, timeoutS int) []string
}

var solvers = []solverSpec{
	{"z3-new", func(file string, t int) []string { return []string{"z3-new", fmt.Sprintf("-T:%d", t), file} }},
	{"z3", func(file string, t int) []string { return []string{"z3", fmt.Sprintf("-T:%d", t), file} }},
	{"cvc5", func(file string, t int) []string {
		return []string{"cvc5", "--strings-exp", fmt.Sprintf("--tlimit=%d", t*1000), file}
	}},
}

func runSolver(ctx context.Context, argv []string) (string, string) {
	cmd := exec.CommandContext(ctx, argv[0], argv[1:]...)
	var out, errb bytes.Buffer
	cmd.Stdout = &out
	cmd.Stderr = &errb
	cmd.Run()
	return out.String(), errb.String()
}

func firstAnswer(out string) string {
	for _, l := range strings.Split(out, "\n") {
		l = strings.TrimSpace(l)
		switch l {
		case "sat", "unsat", "unknown", "timeout":
			return l
		}
		if strings.HasPrefix(l, "(error") {
			return "error: " + l
		}
	}
	return "none"
}

// solveAll discharges the obligations of one encoder.
func solveAll(e *Enc, cfg *SolverCfg, tag string) {
	all := append([]*Obl{}, e.obls...)
	all = append(all, e.Covers...)
	// order by ordinal
	for i := 1; i < len(all); i++ {
		for j := i; j > 0 && all[j].Ord < all[j-1].Ord; j-- {
			all[j], all[j-1] = all[j-1], all[j]
		}
	}
	if len(all) == 0 {
		return
	}
	// trivial ones
	var todo []*Obl
	for _, o := range all {
		if o.Kind != "cover" && (o.Goal.IsTrue() || o.Guard.IsFalse()) {
			o.Result, o.Solver = "unsat", "trivial"
			if o.Kind == "callers" {
				o.Solver = "engine(callgraph)"
			}
			continue
		}
		if o.Kind == "callers" {
			o.Result, o.Solver = "sat", "engine(callgraph)"
			continue
		}
		todo = append(todo, o)
	}
	if len(todo) == 0 {
		return
	}
	base := filepath.Join(cfg.Scratch, sanitizeFile(tag))
	// pass 1: every obligation as a standalone query on z3-new with a short
	// timeout (no incremental session: after a timeout inside an incremental
	// session z3 gave answers that did not reproduce standalone).
	{
		var wg sync.WaitGroup
		for _, o := range todo {
			wg.Add(1)
			go func(o *Obl) {
				defer wg.Done()
				solverSlots <- struct{}{}
				defer func() { <-solverSlots }()
				file := fmt.Sprintf("%s.%s.p1.smt2", base, sanitizeFile(strings.TrimPrefix(o.Name, o.Func)))
				os.WriteFile(file, []byte(e.query(o, false)), 0o644)
				tl := 4
				if o.Kind == "cover" {
					tl = 2
				}
				t0 := time.Now()
				ctx, cancel := context.WithTimeout(context.Background(), time.Duration(tl+3)*time.Second)
				out, _ := runSolver(ctx, []string{"z3-new", fmt.Sprintf("-T:%d", tl), file})
				cancel()
				o.Result = firstAnswer(out)
				o.Solver = "z3-new"
				o.TimeS = time.Since(t0).Seconds()
				if !cfg.KeepFiles {
					os.Remove(file)
				}
			}(o)
		}
		wg.Wait()
	}
	// pass 2: everything not decided as expected goes to the solver race
	var second []*Obl
	for _, o := range todo {
		if o.Kind == "cover" {
			continue // a cover fails only when the solver REFUTES reachability (unsat)
		}
		if o.Result != "unsat" {
			second = append(second, o)
		}
	}
	if cfg.AllAgree {
		second = nil
		for _, o := range todo {
			if o.Kind != "cover" {
				second = append(second, o)
			}
		}
	}
	var wg sync.WaitGroup
	for _, o := range second {
		wg.Add(1)
		go func(o *Obl) {
			defer wg.Done()
			raceOne(e, o, cfg, base)
		}(o)
	}
	wg.Wait()
}

// global bound on concurrently running solver processes
var solverSlots = make(chan struct{}, 16)

func sanitizeFile(s string) string {
	var sb strings.Builder
	changed := false
	for i := 0; i < len(s); i++ {
		c := s[i]
		if c >= 'a' && c <= 'z' || c >= 'A' && c <= 'Z' || c >= '0' && c <= '9' || c == '.' || c == '-' {
			sb.WriteByte(c)
		} else {
			sb.WriteByte('_')
			changed = true
		}
	}
	out := sb.String()
	if len(out) > 140 {
		out = out[:140]
		changed = true
	}
	if changed {
		// distinct names must give distinct files (queries are written and solved concurrently)
		h := fnv.New32a()
		h.Write([]byte(s))
		out += fmt.Sprintf("-%08x", h.Sum32())
	}
	return out
}

func raceOne(e *Enc, o *Obl, cfg *SolverCfg, base string) {
	want := "unsat"
	if o.Kind == "cover" {
		want = "sat"
	}
	file := fmt.Sprintf("%s.%s.smt2", base, sanitizeFile(strings.TrimPrefix(o.Name, o.Func)))
	if want == "unsat" && !cfg.AllAgree && len(e.guardCases(o.Guard)) >= 2 {
		// a join point: the per-path queries are usually much easier than the merged one
		if o.Extra == nil {
			o.Extra = map[string]string{}
		}
		quick := *cfg
		if quick.TimeoutS > 5 {
			quick.TimeoutS = 5
		}
		e.pathSplit(o, &quick, file)
		if o.Result == "unsat" {
			return
		}
	}
	os.WriteFile(file, []byte(e.query(o, true)), 0o644)
	if !cfg.KeepFiles {
		defer os.Remove(file)
	}
	type ans struct {
		solver, res, out string
		dt          float64
	}
	ctx, cancel := context.WithCancel(context.Background())
	defer cancel()
	slicedFile := strings.TrimSuffix(file, ".smt2") + ".sliced.smt2"
	os.WriteFile(slicedFile, []byte(e.queryS(o, true, true)), 0o644)
	if !cfg.KeepFiles {
		defer os.Remove(slicedFile)
	}
	runs := append([]solverSpec{}, solvers...)
	runs = append(runs, solverSpec{"z3-new/sliced", func(_ string, t int) []string { return []string{"z3-new", fmt.Sprintf("-T:%d", t), slicedFile} }})
	if o.Goal != nil && o.Goal.Op == "forall" && o.Kind != "cover" {
		skFile := strings.TrimSuffix(file, ".smt2") + ".skolem.smt2"
		os.WriteFile(skFile, []byte(e.querySkolem(o)), 0o644)
		if !cfg.KeepFiles {
			defer os.Remove(skFile)
		}
		runs = append(runs, solverSpec{"z3-new/skolem", func(_ string, t int) []string { return []string{"z3-new", fmt.Sprintf("-T:%d", t), skFile} }})
		siFile := strings.TrimSuffix(file, ".smt2") + ".skinst.smt2"
		os.WriteFile(siFile, []byte(e.querySkolemInst(o)), 0o644)
		if !cfg.KeepFiles {
			defer os.Remove(siFile)
		}
		runs = append(runs, solverSpec{"z3-new/skolem+inst", func(_ string, t int) []string { return []string{"z3-new", fmt.Sprintf("-T:%d", t), siFile} }})
	}
	ch := make(chan ans, len(runs))
	for _, s := range runs {
		go func(s solverSpec) {
			solverSlots <- struct{}{}
			defer func() { <-solverSlots }()
			t0 := time.Now()
			// the clock starts when the solver gets a slot, not when the obligation is queued
			sctx, scancel := context.WithTimeout(ctx, time.Duration(cfg.TimeoutS+5)*time.Second)
			defer scancel()
			out, _ := runSolver(sctx, s.args(file, cfg.TimeoutS))
			ch <- ans{s.name, firstAnswer(out), out, time.Since(t0).Seconds()}
		}(s)
	}
	var got []ans
	var sat, unsat *ans
	for range runs {
		a := <-ch
		got = append(got, a)
		if a.res == "sat" && a.solver == "z3-new/sliced" {
			a.res = "sat-of-sliced-query"
			got[len(got)-1] = a
		}
		if a.res == "sat" && sat == nil {
			x := a
			sat = &x
		}
		if a.res == "unsat" && a.solver == "z3" {
			// z3 4.8.12 returned unsat on satisfiable queries here (see DESIGN.md);
			// its refutations are not accepted as a discharge.
			a.res = "unsat-untrusted"
			got[len(got)-1] = a
		}
		if a.res == "unsat" && unsat == nil {
			x := a
			unsat = &x
		}
		if !cfg.AllAgree && (a.res == "sat" || a.res == "unsat") {
			// first definite answer wins (others keep running until ctx ends; cancel them)
			cancel()
			break
		}
	}
	if o.Extra == nil {
		o.Extra = map[string]string{}
	}
	var parts []string
	for _, a := range got {
		parts = append(parts, fmt.Sprintf("%s=%s(%.2fs)", a.solver, a.res, a.dt))
	}
	o.Extra["solvers"] = strings.Join(parts, " ")
	switch {
	case sat != nil && unsat != nil:
		o.Result = "disagree"
		o.Solver = sat.solver + " vs " + unsat.solver
	case unsat != nil:
		o.Result, o.Solver, o.TimeS = "unsat", unsat.solver, unsat.dt
	case sat != nil:
		o.Result, o.Solver, o.TimeS = "sat", sat.solver, sat.dt
		o.Model = trimModel(sat.out)
	default:
		res := "unknown"
		for _, a := range got {
			if a.res == "timeout" {
				res = "timeout"
			}
			if strings.HasPrefix(a.res, "error") && res == "unknown" {
				o.Extra["error"] = a.res
			}
		}
		o.Result = res
		o.Solver = "all"
	}
	if want == "unsat" && (o.Result == "unknown" || o.Result == "timeout") && o.Extra["pathsplit"] == "" {
		e.pathSplit(o, cfg, file)
	}
	if want == "unsat" && (o.Result == "unknown" || o.Result == "timeout") {
		e.goalSplit(o, cfg, file)
	}
	if cfg.AllAgree && want == "unsat" && o.Result == "unsat" {
		// count how many agreed
		n := 0
		for _, a := range got {
			if a.res == "unsat" {
				n++
			}
		}
		o.Extra["agree"] = fmt.Sprint(n)
	}
}

func trimModel(out string) string {
	i := strings.Index(out, "\n")
	if i < 0 {
		return ""
	}
	m := out[i+1:]
	if len(m) > 20000 {
		m = m[:20000] + "\n...(truncated)"
	}
	return m
}


// relevantFacts: cone of influence of the obligation: facts (earlier than the
// obligation) connected to the goal/guard through shared symbols.  Dropping
// unconnected facts only weakens the premises, so a refutation stays valid.
func (e *Enc) relevantFacts(o *Obl, sliced bool) []*Fact {
	e.factVarsOnce.Do(func() {
		e.factVars = make([]map[string]*Sort, len(e.facts))
		for i, f := range e.facts {
			m := map[string]*Sort{}
			f.T.Vars(m)
			if f.Guard != nil {
				f.Guard.Vars(m)
			}
			collectFuns(f.T, m)
			e.factVars[i] = m
		}
	})
	want := map[string]*Sort{}
	o.Goal.Vars(want)
	o.Guard.Vars(want)
	collectFuns(o.Goal, want)
	n := 0
	for n < len(e.facts) && e.facts[n].Ord < o.Ord {
		n++
	}
	in := make([]bool, n)
	// path slicing: a fact guarded by the guard of a block that cannot reach the
	// obligation's block belongs to another path; leaving it out only weakens the
	// hypotheses (sound) and keeps the query small
	skip := make([]bool, n)
	if e.blockGuard != nil && sliced {
		gv := map[string]*Sort{}
		o.Guard.Vars(gv)
		ob, cnt := -1, 0
		for v := range gv {
			if bi, ok := e.blockGuard[v]; ok {
				ob = bi
				cnt++
			}
		}
		if cnt == 1 {
			anc := e.ancestors[ob]
			for i := 0; i < n; i++ {
				g := e.facts[i].Guard
				if g != nil && g.IsAtom() && g.Name != "" {
					if fb, ok := e.blockGuard[g.Name]; ok && !anc[fb] {
						skip[i] = true
					}
				}
			}
		}
	}
	for changed := true; changed; {
		changed = false
		for i := 0; i < n; i++ {
			if in[i] || skip[i] {
				continue
			}
			vs := e.factVars[i]
			hit := len(vs) == 0
			for v := range vs {
				if _, ok := want[v]; ok {
					hit = true
					break
				}
			}
			if hit {
				in[i] = true
				changed = true
				for v, srt := range vs {
					want[v] = srt
				}
			}
		}
	}
	var out []*Fact
	for i := 0; i < n; i++ {
		if in[i] {
			out = append(out, e.facts[i])
		}
	}
	return out
}

// uninterpreted function symbols also connect facts
func collectFuns(t *Term, into map[string]*Sort) {
	if t.Op != "" && !isBuiltinOp(t.Op) && t.Op != "forall" && t.Op != "exists" && t.Op != "constarray" && len(t.Args) > 0 {
		if strings.HasPrefix(t.Op, "fn$") || strings.HasPrefix(t.Op, "bv$") || strings.HasPrefix(t.Op, "box$") || strings.HasPrefix(t.Op, "unbox$") || strings.HasSuffix(t.Op, "_run") {
			into["fun:"+t.Op] = t.S
		}
	}
	for _, a := range t.Args {
		collectFuns(a, into)
	}
	for _, p := range t.Pat {
		collectFuns(p, into)
	}
}


// guardCases: the disjuncts of a path guard (a named guard is looked up in its
// defining fact  g = (or ...)).
func (e *Enc) guardCases(g *Term) []*Term {
	if g == nil {
		return nil
	}
	if g.Op == "or" {
		return g.Args
	}
	if g.Op == "" && len(g.Args) == 0 && g.Name != "" {
		for _, f := range e.facts {
			if (f.Guard == nil || f.Guard.IsTrue()) && f.T.Op == "=" && len(f.T.Args) == 2 {
				if a := f.T.Args[0]; a.Op == "" && a.Name == g.Name && f.T.Args[1].Op == "or" {
					return f.T.Args[1].Args
				}
			}
		}
	}
	return nil
}

// pathSplit: an obligation at a join point whose query is too hard as a whole is
// decided path by path: the guard is a disjunction of the incoming paths, and the
// obligation holds iff it holds under each of them (z3-new only; every case must be
// refuted).
func (e *Enc) pathSplit(o *Obl, cfg *SolverCfg, file string) {
	var leaves []*Term
	var expand func(g *Term, depth int)
	expand = func(g *Term, depth int) {
		cs := e.guardCases(g)
		if len(cs) < 2 || depth >= 2 || len(leaves)+len(cs) > 12 {
			leaves = append(leaves, g)
			return
		}
		for _, c := range cs {
			expand(c, depth+1)
		}
	}
	cs := e.guardCases(o.Guard)
	if len(cs) < 2 {
		return
	}
	for _, c := range cs {
		expand(c, 1)
	}
	base := e.query(o, false)
	baseSliced := e.queryS(o, false, true)
	total := 0.0
	used := map[string]bool{}
	caseT := cfg.TimeoutS
	if caseT > 6 && !cfg.AllAgree {
		caseT = 6
	}
	for i, c := range leaves {
		q := strings.Replace(base, "(check-sat)", "(assert "+c.String()+")\n(check-sat)", 1)
		cf := fmt.Sprintf("%s.case%d.smt2", strings.TrimSuffix(file, ".smt2"), i)
		os.WriteFile(cf, []byte(q), 0o644)
		cfs := strings.TrimSuffix(cf, ".smt2") + ".sliced.smt2"
		os.WriteFile(cfs, []byte(strings.Replace(baseSliced, "(check-sat)", "(assert "+c.String()+")\n(check-sat)", 1)), 0o644)
		if !cfg.KeepFiles {
			defer os.Remove(cfs)
		}
		// race the deciding solvers on this case (z3-new also on the path-sliced query)
		t0 := time.Now()
		ctx, cancel := context.WithCancel(context.Background())
		type cres struct{ name, res string }
		ch := make(chan cres, 3)
		n := 0
		caseRuns := append([]solverSpec{}, solvers...)
		caseRuns = append(caseRuns, solverSpec{"z3-new/sliced", func(_ string, t int) []string { return []string{"z3-new", fmt.Sprintf("-T:%d", t), cfs} }})
		for _, sp := range caseRuns {
			if sp.name == "z3" {
				continue
			}
			n++
			go func(sp solverSpec) {
				solverSlots <- struct{}{}
				defer func() { <-solverSlots }()
				sctx, scancel := context.WithTimeout(ctx, time.Duration(caseT+3)*time.Second)
				defer scancel()
				out, _ := runSolver(sctx, sp.args(cf, caseT))
				ch <- cres{sp.name, firstAnswer(out)}
			}(sp)
		}
		res := "unknown"
		for j := 0; j < n; j++ {
			r := <-ch
			if r.res == "unsat" {
				res = "unsat"
				used[r.name] = true
				break
			}
			if r.res == "sat" && r.name != "z3-new/sliced" {
				res = "sat"
				break
			}
			if r.res == "timeout" {
				res = "timeout"
			}
		}
		cancel()
		total += time.Since(t0).Seconds()
		if !cfg.KeepFiles {
			defer os.Remove(cf)
		}
		if res != "unsat" {
			o.Extra["pathsplit"] = fmt.Sprintf("case %d of %d: %s", i+1, len(leaves), res)
			return
		}
	}
	var us []string
	for k := range used {
		us = append(us, k)
	}
	sort.Strings(us)
	o.Result, o.Solver, o.TimeS = "unsat", fmt.Sprintf("%s(path-split %d)", strings.Join(us, "+"), len(leaves)), total
}


// goalSplit: a goal  forall i. lo <= X(i) < hi ==> P(i)  that the solvers cannot decide
// as a whole is decided for an arbitrary i (a fresh constant) in two cases X < p and
// X >= p, where the pivot p is the length of a loop-carried slice at the loop head (the
// natural split after an append: old elements / new elements).  Both cases must be
// refuted by z3-new or cvc5; pivots are tried in turn.
func (e *Enc) goalSplit(o *Obl, cfg *SolverCfg, file string) {
	g := o.Goal
	if g.Op != "forall" || len(g.Q) != 1 || g.Q[0].S.K != SInt || len(g.Args) != 1 {
		return
	}
	body := g.Args[0]
	if body.Op != "=>" || len(body.Args) != 2 {
		return
	}
	// find  (<= lo X) in the range guard: X is the indexed position
	var x *Term
	var find func(t *Term)
	find = func(t *Term) {
		if x != nil {
			return
		}
		if t.Op == "and" {
			for _, a := range t.Args {
				find(a)
			}
			return
		}
		if (t.Op == "<=" || t.Op == "<") && len(t.Args) == 2 && containsVar(t.Args[1], g.Q[0].Name) && !containsVar(t.Args[0], g.Q[0].Name) {
			x = t.Args[1]
		}
	}
	find(body.Args[0])
	if x == nil {
		return
	}
	var pivots []string
	for _, n := range e.declOrder {
		if strings.HasPrefix(n, "h_") && strings.Contains(n, ".2#") && e.decls[n].K == SInt {
			pivots = append(pivots, n)
		}
	}
	if len(pivots) > 2 {
		pivots = pivots[len(pivots)-2:]
	}
	caseT := cfg.TimeoutS
	if caseT > 6 && !cfg.AllAgree {
		caseT = 6
	}
	sk := "sk!goal"
	inst := body.Subst(map[string]*Term{g.Q[0].Name: Var(sk, IntS)})
	xs := x.Subst(map[string]*Term{g.Q[0].Name: Var(sk, IntS)})
	base := e.queryS(o, false, true)
	k := strings.LastIndex(base, "(assert (not ")
	if k < 0 {
		return
	}
	head := base[:k] + "(declare-const |" + sk + "| Int)\n(assert (not " + inst.String() + "))\n"
	for pi, pv := range pivots {
		p := Var(pv, IntS)
		okAll := true
		total := 0.0
		used := map[string]bool{}
		for ci, c := range []*Term{Lt(xs, p), Ge(xs, p)} {
			cf := fmt.Sprintf("%s.goal%d_%d.smt2", strings.TrimSuffix(file, ".smt2"), pi, ci)
			os.WriteFile(cf, []byte(head+"(assert "+c.String()+")\n(check-sat)\n"), 0o644)
			t0 := time.Now()
			ctx, cancel := context.WithCancel(context.Background())
			type cres struct{ name, res string }
			ch := make(chan cres, 2)
			n := 0
			for _, sp := range solvers {
				if sp.name == "z3" {
					continue
				}
				n++
				go func(sp solverSpec) {
					solverSlots <- struct{}{}
					defer func() { <-solverSlots }()
					sctx, scancel := context.WithTimeout(ctx, time.Duration(caseT+3)*time.Second)
					defer scancel()
					out, _ := runSolver(sctx, sp.args(cf, caseT))
					ch <- cres{sp.name, firstAnswer(out)}
				}(sp)
			}
			res := "unknown"
			for j := 0; j < n; j++ {
				r := <-ch
				if r.res == "unsat" {
					res = "unsat"
					used[r.name] = true
					break
				}
			}
			cancel()
			total += time.Since(t0).Seconds()
			if !cfg.KeepFiles {
				defer os.Remove(cf)
			}
			if res != "unsat" {
				okAll = false
				break
			}
		}
		if okAll {
			var us []string
			for k := range used {
				us = append(us, k)
			}
			sort.Strings(us)
			o.Result, o.Solver, o.TimeS = "unsat", fmt.Sprintf("%s(goal-split at %s)", strings.Join(us, "+"), pv), total
			return
		}
	}
}

func negatedGoalNoDecl(g *Term) string {
	for g.Op == "forall" && len(g.Args) == 1 {
		g = g.Args[0]
	}
	return "(assert (not " + g.String() + "))\n"
}

// instancesAt: ground instances of the universally quantified parts of a fact at the given
// constants (matched by position and sort).
func instancesAt(t *Term, sk []Bound) []*Term {
	switch {
	case t.Op == "forall" && len(t.Args) == 1:
		var qs []Bound
		body := t
		for body.Op == "forall" && len(body.Args) == 1 {
			qs = append(qs, body.Q...)
			body = body.Args[0]
		}
		if len(qs) > len(sk) {
			return nil
		}
		m := map[string]*Term{}
		for i, q := range qs {
			if !sameSort(q.S, sk[i].S) {
				return nil
			}
			if q.Name != sk[i].Name {
				m[q.Name] = Var(sk[i].Name, sk[i].S)
			}
		}
		return []*Term{body.Subst(m)}
	case t.Op == "=>" && len(t.Args) == 2:
		var out []*Term
		for _, i := range instancesAt(t.Args[1], sk) {
			out = append(out, Implies(t.Args[0], i))
		}
		return out
	case t.Op == "and":
		var out []*Term
		for _, a := range t.Args {
			out = append(out, instancesAt(a, sk)...)
		}
		return out
	}
	return nil
}
