package main

import (
	"runtime"
	"encoding/json"
	"flag"
	"fmt"
	"os"
	"path/filepath"
	"sort"
	"strconv"
	"strings"
	"sync"
	"time"
)

type KnownFinding struct {
	Property   string `json:"property"`
	Obligation string `json:"obligation"`
	Status     string `json:"status"` // open | fixed
	What       string `json:"what"`
	Witness    string `json:"witness,omitempty"`
	Commit     string `json:"commit,omitempty"`
}

type KnownFile struct {
	Findings []KnownFinding `json:"findings"`
}

func loadKnown() *KnownFile {
	kf := &KnownFile{}
	data, err := os.ReadFile(filepath.Join(verifDir, "known_findings.json"))
	if err == nil {
		json.Unmarshal(data, kf)
	}
	return kf
}

func loadPinned(prop string) ([]string, string) {
	data, err := os.ReadFile(filepath.Join(verifDir, "obligations", prop+".pinned"))
	if err != nil {
		return nil, ""
	}
	var out []string
	commit := ""
	for _, l := range strings.Split(string(data), "\n") {
		l = strings.TrimSpace(l)
		if strings.HasPrefix(l, "# commit ") {
			commit = strings.TrimPrefix(l, "# commit ")
		}
		if l == "" || strings.HasPrefix(l, "#") {
			continue
		}
		out = append(out, l)
	}
	return out, commit
}

func loadNoinv(prop string) map[string]bool {
	out := map[string]bool{}
	data, err := os.ReadFile(filepath.Join(verifDir, "obligations", prop+".noinv"))
	if err != nil {
		return out
	}
	for _, l := range strings.Split(string(data), "\n") {
		l = strings.TrimSpace(l)
		if l != "" && !strings.HasPrefix(l, "#") {
			out[l] = true
		}
	}
	return out
}

func hasProp(ps []string, p string) bool {
	for _, x := range ps {
		if x == p {
			return true
		}
	}
	return false
}

type funcRun struct {
	key  string
	enc  *Enc
	err  error
	wall float64
	presolved bool
	skipped   []*Obl
	noinv     bool // fallback encoding without loop invariants (the contract's invariants no longer attach)
	detachErr string
	noinvEnc  *Enc // at --pin: the invariant-free encoding solved beside the full one
}

func cmdCheck(args []string) int {
	fs := flag.NewFlagSet("check", flag.ExitOnError)
	prop := fs.String("property", "", "property id")
	tier := fs.String("tier", "quick", "quick|thorough")
	pin := fs.Bool("pin", false, "write the pinned obligation set from this run")
	keep := fs.String("keep", "", "keep SMT files in this directory")
	verbose := fs.Bool("v", false, "verbose")
	fs.Parse(args)
	if *prop == "" {
		fmt.Fprintln(os.Stderr, "check: --property required")
		return 2
	}
	if t := os.Getenv("VERIF_TIER"); t != "" && *tier == "" {
		*tier = t
	}
	seed := 0
	if s := os.Getenv("VERIF_SEED"); s != "" {
		seed, _ = strconv.Atoi(s)
	}
	t0 := time.Now()
	p, err := loadAll()
	if err != nil {
		// the tree does not load (does not compile): every pinned obligation is undecidable
		fmt.Fprintln(os.Stderr, "load error:", err)
		return reportLoadFailure(*prop, *tier, seed, err, t0)
	}
	loadS := time.Since(t0).Seconds()
	scratch, _ := os.MkdirTemp("", "vcgo-"+*prop+"-")
	defer os.RemoveAll(scratch)
	cfg := &SolverCfg{TimeoutS: 10, Scratch: scratch, Parallel: 16}
	if *tier == "thorough" {
		cfg.TimeoutS = 60
		cfg.AllAgree = true
	}
	if *keep != "" {
		os.MkdirAll(*keep, 0o755)
		cfg.Scratch, cfg.KeepFiles = *keep, true
	}
	// functions and lemmas of this property
	var runs []*funcRun
	for _, k := range p.Cs.Order {
		fc := p.Cs.Funcs[k]
		if fc.Trusted || fc.IsIface || fc.Inline || !funcServes(fc, *prop) {
			continue
		}
		r := &funcRun{key: k}
		tf := time.Now()
		r.enc, r.err = VerifyFunc(p, k)
		if r.err != nil && strings.Contains(r.err.Error(), "unknown identifier") && len(fc.LoopInv) > 0 {
			// a loop invariant names a local that no longer exists: fall back to the encoding
			// without loop invariants; only the obligations recorded (at pin time) as discharged
			// in that encoding on the unchanged tree stay claimed for this function
			if e2, err2 := VerifyFuncOpt(p, k, true); err2 == nil {
				r.detachErr = r.err.Error()
				r.enc, r.err, r.noinv = e2, nil, true
			}
		} else if *pin && r.err == nil && len(fc.LoopInv) > 0 {
			r.noinvEnc, _ = VerifyFuncOpt(p, k, true)
		}
		r.wall = time.Since(tf).Seconds()
		runs = append(runs, r)
	}
	for _, cr := range p.Cs.Callers {
		if !hasProp(cr.Props, *prop) {
			continue
		}
		r := &funcRun{key: "callers." + cr.Callee}
		r.enc, r.err = VerifyCallers(p, cr)
		runs = append(runs, r)
	}
	for _, lm := range p.Cs.Lemmas {
		if lm.Axiom || !hasProp(lm.Props, *prop) {
			continue
		}
		r := &funcRun{key: "lemma." + lm.Name}
		r.enc, r.err = VerifyLemma(p, lm)
		runs = append(runs, r)
	}
	if *prop == "C10" {
		// comparator obligations: every comparator handed to package sort is a strict weak order
		runs = append(runs, VerifyComparators(p, *prop)...)
		// iteration-order obligations: decided by the structural commutation rules of order.go
		r := &funcRun{key: "order"}
		r.enc = VerifyOrder(p, *prop)
		r.presolved = true
		runs = append(runs, r)
	}
	// obligations recorded as undecided on the unchanged tree are not claimed: the quick
	// tier does not spend solver time on them (the thorough tier and --pin do)
	if *tier != "thorough" && !*pin {
		if data, err := os.ReadFile(filepath.Join(verifDir, "obligations", *prop+".undecided")); err == nil {
			base := map[string]bool{}
			for _, l := range strings.Split(string(data), "\n") {
				l = strings.TrimSpace(l)
				if l != "" && !strings.HasPrefix(l, "#") {
					base[l] = true
				}
			}
			for _, r := range runs {
				if r.enc == nil || r.presolved {
					continue
				}
				var keep []*Obl
				for _, o := range r.enc.obls {
					if base[o.Name] {
						o.Result, o.Solver = "not-attempted(undecided on the unchanged tree)", "none"
						r.skipped = append(r.skipped, o)
						continue
					}
					keep = append(keep, o)
				}
				r.enc.obls = keep
			}
		}
	}
	// solve in parallel
	var wg sync.WaitGroup
	sem := make(chan struct{}, 6)
	for _, r := range runs {
		if r.err != nil || r.enc == nil || r.presolved {
			continue
		}
		wg.Add(1)
		go func(r *funcRun) {
			defer wg.Done()
			sem <- struct{}{}
			defer func() { <-sem }()
			solveAll(r.enc, cfg, r.key)
			if r.noinvEnc != nil {
				solveAll(r.noinvEnc, cfg, r.key+".noinv")
			}
		}(r)
	}
	wg.Wait()
	if !*pin {
		retryUndecided(*prop, runs, cfg)
	}
	for _, r := range runs {
		if r.enc != nil && len(r.skipped) > 0 {
			r.enc.obls = append(r.enc.obls, r.skipped...)
		}
	}
	return report(p, *prop, *tier, seed, runs, *pin, *verbose, t0, loadS)
}

func funcServes(fc *FuncContract, prop string) bool {
	if hasProp(fc.Props, prop) {
		return true
	}
	for _, cls := range [][]*Clause{fc.Ensures, fc.Requires} {
		for _, cl := range cls {
			if hasProp(cl.Props, prop) {
				return true
			}
		}
	}
	return false
}

type oblRec struct {
	Name   string  `json:"name"`
	Result string  `json:"result"`
	Solver string  `json:"solver"`
	TimeS  float64 `json:"time_s"`
	Where  string  `json:"where,omitempty"`
}

func report(p *Program, prop, tier string, seed int, runs []*funcRun, pin, verbose bool, t0 time.Time, loadS float64) int {
	pinned, pinCommit := loadPinned(prop)
	known := loadKnown()
	knownOpen := map[string]KnownFinding{}
	for _, k := range known.Findings {
		if k.Property == prop && k.Status == "open" {
			knownOpen[k.Obligation] = k
		}
	}
	byName := map[string]*Obl{}
	genErr := map[string]string{} // function -> error
	trusted := map[string]bool{}
	assumes := map[string]bool{}
	var funcs []string
	var vacuous []string
	bySolver := map[string]int{}
	solverTime := 0.0
	specAxioms := map[string]bool{}
	noinvGroups := loadNoinv(prop)
	noinvFns := map[string]string{} // function verified in the invariant-free fallback encoding -> why
	for _, r := range runs {
		funcs = append(funcs, r.key)
		if r.err != nil {
			genErr[r.key] = r.err.Error()
			continue
		}
		if r.noinv {
			noinvFns[r.key] = r.detachErr
		}
		for _, o := range r.enc.obls {
			ps := o.Props
			if len(ps) == 0 && r.enc.TopC != nil {
				ps = r.enc.TopC.Props
			}
			if !hasProp(ps, prop) {
				continue
			}
			if r.noinv && !noinvGroups[oblGroup(o.Name)] {
				continue // not decided by the fallback encoding on the unchanged tree either
			}
			byName[o.Name] = o
			solverTime += o.TimeS
			if o.Result == "unsat" {
				bySolver[o.Solver]++
			}
		}
		for _, c := range r.enc.Covers {
			if c.Result == "unsat" {
				vacuous = append(vacuous, c.Name)
			}
		}
		for k := range r.enc.Trusted {
			trusted[k] = true
		}
		for k := range r.enc.Assumes {
			assumes[k] = true
		}
		for lib := range r.enc.Uses {
			if n := p.Spec.Axioms[lib]; n > 0 {
				specAxioms[fmt.Sprintf("spec library %s.smt2: %d axiom(s) (assert forms) and its definitions", lib, n)] = true
			} else if _, ok := p.Spec.LibText[lib]; ok {
				specAxioms[fmt.Sprintf("spec library %s.smt2 (definitions written from the external standard)", lib)] = true
			}
		}
	}
	names := sortedKeys(byName)
	if pin {
		var b strings.Builder
		fmt.Fprintf(&b, "# pinned obligations of %s: discharged on the unchanged tree well under the quick timeout\n", prop)
		fmt.Fprintf(&b, "# commit %s\n", repoHead())
		n := 0
		// an obligation that needs more than 6 s of solver time on the unchanged tree is too
		// close to the quick timeout to be claimed: it goes to the undecided list instead
		for _, nm := range names {
			if o := byName[nm]; o.Result == "unsat" && o.TimeS > 6 {
				o.Result = "slow(" + fmt.Sprintf("%.0fs", o.TimeS) + "): not claimed"
			} else if o.Result == "unsat" && strings.Contains(o.Solver, "goal-split") {
				// found only after the whole query and the per-path queries timed out: not stable enough to claim
				o.Result = "discharged only by goal-split after timeouts: not claimed"
			}
		}
		for _, nm := range names {
			if byName[nm].Result == "unsat" {
				b.WriteString(nm + "\n")
				n++
			}
		}
		os.MkdirAll(filepath.Join(verifDir, "obligations"), 0o755)
		os.WriteFile(filepath.Join(verifDir, "obligations", prop+".pinned"), []byte(b.String()), 0o644)
		fmt.Printf("pinned %d obligations for %s\n", n, prop)
		// members of a pinned group that are NOT discharged on the unchanged tree: never claimed
		pg := map[string]bool{}
		for _, nm := range names {
			if byName[nm].Result == "unsat" {
				pg[oblGroup(nm)] = true
			}
		}
		var ub strings.Builder
		fmt.Fprintf(&ub, "# obligations of %s in pinned groups that are undecided on the unchanged tree (not claimed)\n", prop)
		for _, nm := range names {
			if byName[nm].Result != "unsat" && (pg[oblGroup(nm)] || byName[nm].Kind == "order") {
				ub.WriteString(nm + "\n")
			}
		}
		os.WriteFile(filepath.Join(verifDir, "obligations", prop+".undecided"), []byte(ub.String()), 0o644)
		// obligation groups that are discharged WITHOUT any loop invariant of their function:
		// they stay claimed when the invariants of a contract no longer attach (renamed locals)
		var nb strings.Builder
		fmt.Fprintf(&nb, "# obligation groups of %s whose members all discharge in the invariant-free fallback encoding\n", prop)
		for _, r := range runs {
			if r.noinvEnc == nil {
				continue
			}
			good, bad := map[string]bool{}, map[string]bool{}
			for _, o := range r.noinvEnc.obls {
				ps := o.Props
				if len(ps) == 0 && r.noinvEnc.TopC != nil {
					ps = r.noinvEnc.TopC.Props
				}
				if !hasProp(ps, prop) {
					continue
				}
				g := oblGroup(o.Name)
				if o.Result == "unsat" && o.TimeS <= 6 && !strings.Contains(o.Solver, "goal-split") {
					good[g] = true
				} else {
					bad[g] = true
				}
			}
			for _, g := range sortedKeys(good) {
				if !bad[g] && pg[g] {
					nb.WriteString(g + "\n")
				}
			}
		}
		os.WriteFile(filepath.Join(verifDir, "obligations", prop+".noinv"), []byte(nb.String()), 0o644)
		pinned, pinCommit = loadPinned(prop)
	}
	_ = pinCommit
	// Claims are per obligation GROUP (name without the return-statement text and
	// ordinal): every current member of a pinned group must be discharged, and a
	// pinned group must still have members.
	pinnedGroups := map[string]bool{}
	for _, n := range pinned {
		pinnedGroups[oblGroup(n)] = true
	}
	type failure struct {
		name, reason string
		o            *Obl
	}
	var fails []failure
	var knownLines []string
	discharged, claimed := 0, 0
	groupMembers := map[string]int{}
	detached := map[string]bool{}
	var undecidedNew []string
	newPanicTried := 0
	preCE := map[string]ceResult{}
	extraDischarged := 0
	baselineUndecided := map[string]bool{}
	if data, err := os.ReadFile(filepath.Join(verifDir, "obligations", prop+".undecided")); err == nil {
		for _, l := range strings.Split(string(data), "\n") {
			l = strings.TrimSpace(l)
			if l != "" && !strings.HasPrefix(l, "#") {
				baselineUndecided[l] = true
			}
		}
	}
	for _, n := range names {
		o := byName[n]
		g := oblGroup(n)
		if baselineUndecided[n] && o.Result != "unsat" {
			groupMembers[g]++
			if kf, ok := knownOpen[n]; ok {
				knownLines = append(knownLines, fmt.Sprintf("KNOWN-FINDING: property=%s %s: %s", prop, n, kf.What))
			} else if kf, ok := knownOpen[g]; ok {
				knownLines = append(knownLines, fmt.Sprintf("KNOWN-FINDING: property=%s %s: %s", prop, n, kf.What))
			} else {
				undecidedNew = append(undecidedNew, n+" => "+o.Result+" (undecided on the unchanged tree as well)")
			}
			continue
		}
		if !pinnedGroups[g] {
			if o.Result == "unsat" {
				extraDischarged++
			} else if o.Kind == "order" && !baselineUndecided[n] && o.Extra["definite"] == "1" && knownOpen[n].Property == "" && knownOpen[g].Property == "" {
				// a range-over-map loop that was not there (or was discharged) on the unchanged tree and
				// whose body exhibits an order-dependent value
				claimed++
				fails = append(fails, failure{n, "new order-dependent loop: " + o.Extra["why"], o})
			} else if kf, ok := knownOpen[n]; ok {
				knownLines = append(knownLines, fmt.Sprintf("KNOWN-FINDING: property=%s %s: %s", prop, n, kf.What))
			} else if kf, ok := knownOpen[g]; ok {
				knownLines = append(knownLines, fmt.Sprintf("KNOWN-FINDING: property=%s %s: %s", prop, n, kf.What))
			} else if fc := p.Cs.Funcs[o.Func]; fc != nil && fc.NoPanic && fc.Opts["replay"] != "" && strings.HasPrefix(o.Kind, "nopanic") && o.Result == "sat" && newPanicTried < 3 {
				// a possible panic that was not there on the unchanged tree, in a function whose
				// contract claims "no panic": a violation only when the model replays as a panic of
				// the real function under the contract's precondition (otherwise undecided)
				newPanicTried++
				ce := findCounterexample(p, o)
				if ce.confirmed {
					claimed++
					fails = append(fails, failure{n, "new possible panic, confirmed by replay on the real code", o})
					preCE[n] = ce
				} else {
					undecidedNew = append(undecidedNew, n+" => "+o.Result+" (possible new panic; the model did not replay as a panic on the real code)")
				}
			} else {
				undecidedNew = append(undecidedNew, n+" => "+o.Result)
			}
			continue
		}
		groupMembers[g]++
		claimed++
		if o.Result == "unsat" {
			discharged++
		} else {
			fails = append(fails, failure{n, "solver result: " + o.Result, o})
		}
	}
	// unpinned, attempted obligations by function and kind: the possible successors of a pinned
	// group whose name no longer occurs
	successors := map[string][]*Obl{}
	fnGenerated := map[string]bool{}
	for _, n := range names {
		o := byName[n]
		fnGenerated[o.Func] = true
		if pinnedGroups[oblGroup(n)] || baselineUndecided[n] {
			continue
		}
		k := o.Func + "/" + oblClass(n)
		successors[k] = append(successors[k], o)
	}
	staleLoops := map[string]map[int]bool{}
	for _, r := range runs {
		if r.enc != nil && len(r.enc.StaleLoops) > 0 {
			m := map[int]bool{}
			for _, ord := range r.enc.StaleLoops {
				m[ord] = true
			}
			staleLoops[r.key] = m
		}
	}
	staleNoted := map[string]bool{}
	succFailed := map[string]bool{}
	var renamed []string
	for _, g := range sortedKeys(pinnedGroups) {
		if groupMembers[g] > 0 {
			continue
		}
		fn := g
		if k := strings.Index(g, "/"); k > 0 {
			fn = g[:k]
		}
		if why, ok := noinvFns[fn]; ok {
			// the function is verified in the fallback encoding (its loop invariants name a local
			// that no longer exists): this group needs the invariants and is not decided
			if !detached[fn] {
				detached[fn] = true
				undecidedNew = append(undecidedNew, fn+": loop invariants no longer attach ("+why+"); only the obligations that need no loop invariant are decided for this function")
			}
			continue
		}
		// The group's name carries source text (the indexed expression of a bounds obligation, the
		// call text of a monitor emit) or a loop ordinal. When the text was rewritten (a renamed
		// local, a hoisted sub-expression) the same obligation reappears under a new, unpinned
		// name of the same function and kind: those successors decide the group.
		cls := oblClass(g)
		if cls == "inv.init" || cls == "inv.step" || cls == "decreases" {
			if ord := loopOrdinalOf(g); ord > 0 && staleLoops[fn][ord] {
				// the loop itself is gone (moved into a helper, unrolled): its invariant was a proof
				// auxiliary; the function's other obligations are decided without it
				if !staleNoted[fn] {
					staleNoted[fn] = true
					undecidedNew = append(undecidedNew, fmt.Sprintf("%s: the contract's invariants for loop(s) %v name loops the function no longer has; its remaining obligations are decided without them", fn, sortedInts(staleLoops[fn])))
				}
				continue
			}
		}
		if succ := successors[fn+"/"+cls]; len(succ) > 0 {
			bad := 0
			for _, o := range succ {
				if o.Result != "unsat" {
					bad++
					if !succFailed[o.Name] {
						succFailed[o.Name] = true
						claimed++
						fails = append(fails, failure{o.Name, "solver result: " + o.Result + " (this obligation takes the place of the pinned group " + g + ", which is no longer generated)", o})
					}
				}
			}
			if bad == 0 {
				renamed = append(renamed, g)
			}
			continue
		} else if strings.HasPrefix(cls, "nopanic.") && genErr[fn] == "" && fnGenerated[fn] {
			// the panic site itself is gone and no other site of this kind appeared
			renamed = append(renamed, g)
			continue
		}
		reason := "no obligation of this group is generated any more (the contract does not attach: function changed shape, was renamed or removed)"
		if e, ok := genErr[fn]; ok {
			reason = "obligations of " + fn + " cannot be generated: " + e
			if strings.Contains(e, "unknown identifier") {
				// a local variable named in a loop invariant no longer exists (renamed or removed):
				// the contract has to be updated; until then nothing is decided for this function,
				// which is not evidence of a violation
				if !detached[fn] {
					detached[fn] = true
					undecidedNew = append(undecidedNew, fn+": contract no longer attaches ("+e+"); property NOT decided for this function")
				}
				continue
			}
		}
		claimed++
		fails = append(fails, failure{g, reason, nil})
	}
	// vacuity: an unreachable return / contradictory precondition breaks the check
	for _, v := range vacuous {
		fails = append(fails, failure{v, "vacuity guard: precondition contradictory or no return reachable", nil})
	}
	if len(pinned) == 0 {
		fails = append(fails, failure{prop + "/pinned-set", "no pinned obligations (vacuous check)", nil})
	}
	for fn, e := range genErr {
		anyPinned := false
		for g := range pinnedGroups {
			if strings.HasPrefix(g, fn+"/") {
				anyPinned = true
			}
		}
		if !anyPinned {
			undecidedNew = append(undecidedNew, fn+": "+e)
		}
	}
	sort.Strings(undecidedNew)
	// violations
	os.MkdirAll(filepath.Join(verifDir, "replays", prop), 0o755)
	violations := 0
	ceTried := 0
	var vioLines []string
	for _, fl := range fails {
		kf, ok := knownOpen[fl.name]
		if !ok {
			kf, ok = knownOpen[oblGroup(fl.name)]
		}
		if ok {
			knownLines = append(knownLines, fmt.Sprintf("KNOWN-FINDING: property=%s %s: %s", prop, fl.name, kf.What))
			continue
		}
		violations++
		rp := filepath.Join(verifDir, "replays", prop, sanitizeFile(fl.name)+".json")
		rep := map[string]interface{}{"property": prop, "obligation": fl.name, "reason": fl.reason, "tier": tier}
		confirmed := false
		if fl.o != nil {
			rep["function"] = fl.o.Func
			rep["where"] = fl.o.Where
			rep["solver_result"] = fl.o.Result
			rep["solvers"] = fl.o.Extra
			if fl.o.Kind == "order" {
				rep["note"] = "no iteration-order independence rule applies to this loop any more; the rule engine gives no witness order"
			} else {
				if ceTried >= 4 {
					rep["note"] = "counterexample search skipped (already attempted for 4 failing obligations of this run)"
					data, _ := json.MarshalIndent(rep, "", " ")
					os.WriteFile(rp, data, 0o644)
					vioLines = append(vioLines, fmt.Sprintf("VIOLATION property=%s replay=%s obligation=%s no-failing-input-found", prop, rp, fl.name))
					continue
				}
				ceTried++
				ce, have := preCE[fl.name]
				if !have {
					ce = findCounterexample(p, fl.o)
				}
				for k, v := range ce.report {
					rep[k] = v
				}
				confirmed = ce.confirmed
			}
		}
		data, _ := json.MarshalIndent(rep, "", " ")
		os.WriteFile(rp, data, 0o644)
		line := fmt.Sprintf("VIOLATION property=%s replay=%s", prop, rp)
		if !confirmed {
			line += " obligation=" + fl.name + " no-failing-input-found"
		}
		vioLines = append(vioLines, line)
	}
	sort.Strings(knownLines)
	for _, l := range knownLines {
		fmt.Println(l)
	}
	for _, u := range undecidedNew {
		fmt.Println("UNDECIDED-NEW", u)
	}
	for _, l := range vioLines {
		fmt.Println(l)
	}
	// evidence
	var samples []interface{}
	for i, n := range names {
		if i%maxInt(1, len(names)/6) == 0 && len(samples) < 8 {
			o := byName[n]
			samples = append(samples, map[string]interface{}{"obligation": n, "result": o.Result, "solver": o.Solver, "where": o.Where})
		}
	}
	var tb []string
	tb = append(tb, sortedKeys(trusted)...)
	tb = append(tb, sortedKeys(specAxioms)...)
	tb = append(tb, "go/packages + go/ssa (x/tools v0.29.0) front end and the SSA-to-SMT translation of /verif/engine",
		"solvers: z3 5.1.0 (z3-new) and cvc5 1.0.3 decide; z3 4.8.12 is used for models only (its refutations are not accepted)")
	var obls []oblRec
	for _, n := range names {
		o := byName[n]
		obls = append(obls, oblRec{n, o.Result, o.Solver, o.TimeS, o.Where})
	}
	ev := map[string]interface{}{
		"property_id": prop,
		"tier":        tier,
		"seed":        seed,
		"level":       "proof",
		"coverage": map[string]interface{}{
			"obligations":              claimed,
			"discharged":               discharged,
			"checker_cmd":              fmt.Sprintf("/verif/bin/vcgo check --property %s --tier %s  (VCs from /repo working tree via go/ssa; z3-new incremental, then z3-new/cvc5 race per open obligation)", prop, tier),
			"trusted_base":             tb,
			"functions_under_contract": funcs,
			"by_backend":               bySolver,
			"solver_time_s":            solverTime,
			"generated_obligations":    len(names),
			"unpinned_discharged":      extraDischarged,
			"undecided_new":            undecidedNew,
			"known_findings":           knownLines,
			"vacuity_failures":         vacuous,
			"generation_errors":        genErr,
			"detached_functions":       sortedKeys(detached),
			"renamed_groups":           renamed,
			"samples":                  samples,
			"obligation_results":       obls,
			"bounded":                  []string{},
			"explanation":              "every pinned obligation is a verification condition generated from the current source of the functions listed and refuted by an SMT solver (unsat = discharged)",
		},
		"assumptions": sortedKeys(assumes),
		"wall_s":      time.Since(t0).Seconds(),
		"violations":  violations,
	}
	// the corpus runners (selftest, seeded changes) run the check against a deliberately
	// changed tree: their runs must not overwrite the evidence of the real tree
	if os.Getenv("VERIF_NO_EVIDENCE") == "" {
		os.MkdirAll(filepath.Join(verifDir, "evidence"), 0o755)
		data, _ := json.MarshalIndent(ev, "", " ")
		os.WriteFile(filepath.Join(verifDir, "evidence", prop+".json"), data, 0o644)
	}
	fmt.Printf("%s: %d/%d claimed obligations discharged (%d pinned groups, %d generated, %d functions, load %.1fs, total %.1fs)\n", prop, discharged, claimed, len(pinnedGroups), len(names), len(funcs), loadS, time.Since(t0).Seconds())
	if verbose {
		for _, n := range names {
			o := byName[n]
			fmt.Printf("  %-8s %s [%s]\n", o.Result, n, o.Solver)
		}
	}
	if violations > 0 {
		return 1
	}
	return 0
}

func maxInt(a, b int) int {
	if a > b {
		return a
	}
	return b
}

func repoHead() string {
	data, err := os.ReadFile(filepath.Join(repoDir, ".git", "HEAD"))
	if err != nil {
		return "unknown"
	}
	s := strings.TrimSpace(string(data))
	if strings.HasPrefix(s, "ref: ") {
		d2, err := os.ReadFile(filepath.Join(repoDir, ".git", strings.TrimPrefix(s, "ref: ")))
		if err == nil {
			return strings.TrimSpace(string(d2))
		}
	}
	return s
}

func reportLoadFailure(prop, tier string, seed int, err error, t0 time.Time) int {
	pinned, _ := loadPinned(prop)
	os.MkdirAll(filepath.Join(verifDir, "replays", prop), 0o755)
	rp := filepath.Join(verifDir, "replays", prop, "load-failure.json")
	rep := map[string]interface{}{"property": prop, "reason": "the repository does not load/type-check, no obligation can be generated", "error": err.Error()}
	data, _ := json.MarshalIndent(rep, "", " ")
	os.WriteFile(rp, data, 0o644)
	ev := map[string]interface{}{
		"property_id": prop, "tier": tier, "seed": seed, "level": "proof",
		"coverage": map[string]interface{}{"obligations": maxInt(len(pinned), 1), "discharged": 0, "checker_cmd": "vcgo check", "trusted_base": []string{},
			"explanation": "load failure: " + err.Error(), "samples": []interface{}{"load failure"}},
		"wall_s": time.Since(t0).Seconds(), "violations": 1,
	}
	os.MkdirAll(filepath.Join(verifDir, "evidence"), 0o755)
	d2, _ := json.MarshalIndent(ev, "", " ")
	if os.Getenv("VERIF_NO_EVIDENCE") == "" {
		os.WriteFile(filepath.Join(verifDir, "evidence", prop+".json"), d2, 0o644)
	}
	fmt.Printf("VIOLATION property=%s replay=%s all pinned obligations undecidable: tree does not load no-failing-input-found\n", prop, rp)
	return 1
}

type ceResult struct {
	confirmed bool
	report    map[string]interface{}
}


// oblGroup: obligation name without return-statement text and ordinal.
func oblGroup(n string) string {
	if k := strings.LastIndex(n, "#"); k > 0 {
		n = n[:k]
	}
	// post:label@return ...  /  frame:key@return ...
	if k := strings.Index(n, "/post:"); k >= 0 {
		if a := strings.Index(n[k:], "@"); a >= 0 {
			n = n[:k+a]
		}
	} else if k := strings.Index(n, "/frame:"); k >= 0 {
		if a := strings.Index(n[k:], "@"); a >= 0 {
			n = n[:k+a]
		}
	}
	return n
}

// retryUndecided re-runs, a few at a time and with a timeout scaled up (x4, and further by
// the machine's load), every pinned obligation that the first pass left without an answer
// (timeout/unknown). A missing answer is not a refutation: on a loaded machine the solvers
// of 16 concurrent queries share the cores and a 3 s query can exceed the 10 s wall-clock
// limit. Retrying stops at the first obligation that stays undischarged: the run is then a
// violation whatever the others do, and they keep their first-pass result.
func retryUndecided(prop string, runs []*funcRun, cfg *SolverCfg) {
	pinned, _ := loadPinned(prop)
	pin := map[string]bool{}
	for _, g := range pinned {
		pin[oblGroup(g)] = true
	}
	undecided := map[string]bool{}
	if data, err := os.ReadFile(filepath.Join(verifDir, "obligations", prop+".undecided")); err == nil {
		for _, l := range strings.Split(string(data), "\n") {
			undecided[strings.TrimSpace(l)] = true
		}
	}
	type item struct {
		r   *funcRun
		e   *Enc
		o   *Obl
		tag string
	}
	var todo []item
	for _, r := range runs {
		if r.err != nil || r.enc == nil || r.presolved {
			continue
		}
		for _, o := range r.enc.obls {
			// pinned, or new in this tree (a name recorded neither as pinned nor as undecided at pin time)
			if (o.Result == "timeout" || o.Result == "unknown") && (pin[oblGroup(o.Name)] || !undecided[o.Name]) {
				todo = append(todo, item{r, r.enc, o, r.key})
			}
		}
	}
	if len(todo) == 0 {
		return
	}
	scale := 4.0
	if data, err := os.ReadFile("/proc/loadavg"); err == nil {
		var l1 float64
		fmt.Sscanf(string(data), "%f", &l1)
		if f := l1 / float64(runtime.NumCPU()); f > 1 {
			if f > 1.5 {
				f = 1.5
			}
			scale *= f
		}
	}
	c2 := *cfg
	c2.TimeoutS = int(float64(cfg.TimeoutS) * scale)
	fmt.Fprintf(os.Stderr, "retry: %d pinned obligation(s) without an answer in the first pass; retrying with timeout %ds\n", len(todo), c2.TimeoutS)
	base := func(tag string) string { return filepath.Join(c2.Scratch, sanitizeFile(tag)+".retry") }
	const width = 2
	for i := 0; i < len(todo); i += width {
		var wg sync.WaitGroup
		j := i + width
		if j > len(todo) {
			j = len(todo)
		}
		for _, it := range todo[i:j] {
			wg.Add(1)
			go func(it item) {
				defer wg.Done()
				first := it.o.Result
				it.o.Extra = nil
				raceOne(it.e, it.o, &c2, base(it.tag))
				if it.o.Extra == nil {
					it.o.Extra = map[string]string{}
				}
				it.o.Extra["retry"] = fmt.Sprintf("first pass %s; retried with timeout %ds", first, c2.TimeoutS)
			}(it)
		}
		wg.Wait()
		for _, it := range todo[i:j] {
			if it.o.Result != "unsat" {
				return
			}
		}
	}
}

// oblClass: the kind of an obligation or group name ("F/kind:detail" -> "kind").
func oblClass(n string) string {
	if k := strings.Index(n, "/"); k >= 0 {
		n = n[k+1:]
	}
	if k := strings.Index(n, ":"); k >= 0 {
		n = n[:k]
	}
	return n
}

// loopOrdinalOf: N of "F/inv.step:loopN.k..." (0 when the name has no loop ordinal).
func loopOrdinalOf(n string) int {
	k := strings.Index(n, ":loop")
	if k < 0 {
		return 0
	}
	ord := 0
	for _, c := range n[k+5:] {
		if c < '0' || c > '9' {
			break
		}
		ord = ord*10 + int(c-'0')
	}
	return ord
}

func sortedInts(m map[int]bool) []int {
	var out []int
	for k := range m {
		out = append(out, k)
	}
	sort.Ints(out)
	return out
}
