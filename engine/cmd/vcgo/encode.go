package main

// Verification-condition generation over go/ssa.
//
// Encoding: every SSA value is an SMT constant (or a small tree of them)
// defined by an unguarded equation; every basic block has a Boolean guard;
// loops are cut at their headers (invariant asserted on entry and on every
// back edge, loop-carried values and the loop's modified heap keys havocked).
// Assumptions ("facts") carry the guard of the program point where they are
// made and an ordinal; an obligation sees only facts with a smaller ordinal.

import (
	"fmt"
	"go/ast"
	"go/token"
	"sync"
	"go/types"
	"sort"
	"strings"

	"golang.org/x/tools/go/ssa"
)

type Fact struct {
	Ord   int
	Guard *Term
	T     *Term
	Note  string
}

type Obl struct {
	Name   string
	Kind   string
	Desc   string
	Func   string
	Ord    int
	Guard  *Term
	Goal   *Term
	Props  []string
	Where  string
	Enc    *Enc
	Result string // unsat sat unknown timeout error
	Solver string
	TimeS  float64
	Model  string
	Extra  map[string]string
}

type encError struct{ msg string }

func (e encError) Error() string { return e.msg }

type Enc struct {
	blockGuard map[string]int // top-frame block guard constant -> block index
	ancestors  map[int]map[int]bool // block -> blocks that reach it along forward edges (incl. itself)
	top *Frame
	runLemma map[string]bool
	tables map[string]*Term
	P         *Program
	Top       *ssa.Function
	TopC      *FuncContract
	Mode      Mode
	Arith     string
	decls     map[string]*Sort
	declOrder []string
	facts     []*Fact
	obls      []*Obl
	ord       int
	nfresh    int
	oblCount  map[string]int
	Trusted   map[string]bool
	Assumes   map[string]bool
	Uses      map[string]bool
	inlining  []*ssa.Function
	Covers    []*Obl // reachability covers (must be sat)
	FuncsSeen map[string]bool
	modsetMemo map[*ssa.Function]map[string]*Sort
	modsetDone map[*ssa.Function]bool
	whoMemo    map[*ssa.Function]map[string]*who
	unknownWhy map[string]bool
	factVars   []map[string]*Sort
	factVarsOnce sync.Once
	modsetVisit func(fn *ssa.Function)
	funDecls   []string
	topParams  []ceParam
	topFrame   *Frame
	nq         int
	StaleLoops []int // loop ordinals named by the contract that the function does not have
	NoInv      bool // fallback encoding: every loop invariant, decreases clause and loop-head lemma of the top function is dropped
}

func NewEnc(p *Program, fn *ssa.Function, fc *FuncContract) *Enc {
	e := &Enc{P: p, Top: fn, TopC: fc, decls: map[string]*Sort{}, oblCount: map[string]int{}, Trusted: map[string]bool{}, Assumes: map[string]bool{}, Uses: map[string]bool{}, FuncsSeen: map[string]bool{}, modsetMemo: map[*ssa.Function]map[string]*Sort{}}
	if fc != nil {
		e.Mode.Bytes = fc.Mode == "bytes"
		e.Arith = fc.Arith
		for _, u := range fc.Uses {
			e.Uses[u] = true
		}
	}
	if e.Arith == "" {
		e.Arith = "math"
	}
	return e
}

func (e *Enc) fail(format string, args ...interface{}) {
	panic(encError{fmt.Sprintf(format, args...)})
}

func (e *Enc) declare(name string, s *Sort) *Term {
	if old, ok := e.decls[name]; ok {
		if !sameSort(old, s) {
			e.fail("redeclaration of %s with different sort (%s vs %s)", name, old, s)
		}
		return Var(name, s)
	}
	e.decls[name] = s
	e.declOrder = append(e.declOrder, name)
	return Var(name, s)
}

func (e *Enc) fresh(hint string, s *Sort) *Term {
	e.nfresh++
	return e.declare(fmt.Sprintf("%s#%d", hint, e.nfresh), s)
}

func (e *Enc) tick() int { e.ord++; return e.ord }

func (e *Enc) addFact(guard, t *Term, note string) {
	if t == nil || t.IsTrue() {
		return
	}
	e.noteVars(t)
	e.noteVars(guard)
	e.facts = append(e.facts, &Fact{Ord: e.tick(), Guard: guard, T: t, Note: note})
}

// make sure entry-state variables used in a term are declared
func (e *Enc) noteVars(t *Term) {
	if t == nil {
		return
	}
	vs := map[string]*Sort{}
	t.Vars(vs)
	for n, s := range vs {
		if _, ok := e.decls[n]; !ok {
			if strings.HasPrefix(n, "H0$") {
				e.declare(n, s)
			}
		}
	}
}

// name gives a compound term a name (a fresh constant with a defining fact).
func (e *Enc) name(t *Term, hint string) *Term {
	if t.IsAtom() {
		return t
	}
	c := e.fresh(hint, t.S)
	e.addFact(True, Eq(c, t), "def")
	return c
}

func (e *Enc) addObl(kind, desc string, guard, goal *Term, where string, props []string) *Obl {
	if goal.IsTrue() || guard.IsFalse() {
		// trivially discharged; still record so that counts are stable
	}
	e.noteVars(goal)
	e.noteVars(guard)
	base := kind
	if desc != "" {
		base = kind + ":" + desc
	}
	e.oblCount[base]++
	name := fmt.Sprintf("%s/%s#%d", funcKey(e.Top), base, e.oblCount[base])
	o := &Obl{Name: name, Kind: kind, Desc: desc, Func: funcKey(e.Top), Ord: e.tick(), Guard: guard, Goal: goal, Props: props, Where: where, Enc: e}
	e.obls = append(e.obls, o)
	return o
}

// ---------------------------------------------------------------- frames

type exitPoint struct {
	guard   *Term
	state   *State
	results []*Val
	pos     token.Pos
}

type loopInfo struct {
	header  *ssa.BasicBlock
	ordinal int
	blocks  map[int]bool
	backs   []*ssa.BasicBlock // sources of back edges
	modkeys map[string]*Sort
	phiNew  map[*ssa.Phi]*Val
	envAt   *loopEnv
	preState *State
}

type loopEnv struct {
	phis map[string]*Val // by source name
	iter *Term
	pre  *State // heap state at loop entry (before the havoc)
	hdr  *ssa.BasicBlock
}

type deferSite struct {
	instr *ssa.Defer
	key   string
	index int
}

type Frame struct {
	E          *Enc
	Fn         *ssa.Function
	C          *FuncContract
	prefix     string
	vals       map[ssa.Value]*Val
	params     map[string]*Val
	entryState *State
	guards     map[int]*Term
	outState   map[int]*State
	exits      []exitPoint
	loops      map[int]*loopInfo // by header index
	loopList   []*loopInfo
	isTop      bool
	defers     []*deferSite
	freeVars   []*Val
	curBlock   *ssa.BasicBlock
	curGuard   *Term
	st         *State
	results    []*Val // at postcondition evaluation
	nopanic    bool
	curLoopEnv []*loopInfo
	depth      int
	ranges     map[ssa.Value]*rangeState
	skipModifies bool
	lockSnap   *State // state right after the last Lock in the top frame
}

type rangeState struct {
	kind   string // map string
	m      *Val
	visKey string
	ksort  *Sort
	pos    *Term
}

func (f *Frame) fresh(hint string, s *Sort) *Term { return f.E.fresh(f.prefix+hint, s) }

func (f *Frame) where(pos token.Pos) string { return f.E.P.posString(pos) }

// freshVal makes an unconstrained value of type t with well-formedness facts.
func (f *Frame) freshVal(t types.Type, hint string) *Val {
	if tup, ok := t.(*types.Tuple); ok {
		v := &Val{K: VTuple, T: t}
		for i := 0; i < tup.Len(); i++ {
			v.Fields = append(v.Fields, f.freshVal(tup.At(i).Type(), fmt.Sprintf("%s.%d", hint, i)))
		}
		return v
	}
	ls := leavesOf(t, f.E.Mode)
	ts := make([]*Term, len(ls))
	for i, l := range ls {
		ts[i] = f.fresh(hint+l.path, l.sort)
	}
	v := valFromLeaves(t, f.E.Mode, ts)
	f.assumeWF(v)
	return v
}

func (f *Frame) assume(t *Term, note string) { f.E.addFact(f.curGuard, t, note) }

func (f *Frame) assumeWF(v *Val) {
	for _, t := range f.wfTerms(v) {
		f.assume(t, "wf")
	}
}

func (f *Frame) wfTerms(v *Val) []*Term {
	var out []*Term
	var rec func(v *Val)
	rec = func(v *Val) {
		switch v.K {
		case VScalar:
			if v.T != nil {
				if lo, hi, ok := intRange(v.T); ok && !v.X.IsLit() {
					out = append(out, Le(lo, v.X), Le(v.X, hi))
				}
				_ = v // references may be negative (inner objects of embedded structs)
			}
		case VBytes:
			if !v.Off.IsLit() {
				out = append(out, Ge(v.Off, IntLit(0)))
			}
			if !v.Len.IsLit() {
				out = append(out, Ge(v.Len, IntLit(0)))
			}
		case VSlice:
			out = append(out, Ge(v.Off, IntLit(0)), Ge(v.Len, IntLit(0)), Ge(v.Cap, v.Len), Ge(v.Base, IntLit(0)),
				Implies(Eq(v.Base, IntLit(0)), And(Eq(v.Len, IntLit(0)), Eq(v.Cap, IntLit(0)))))
		case VStruct, VTuple:
			for _, x := range v.Fields {
				rec(x)
			}
		case VIface:
			out = append(out, Ge(v.Tag, IntLit(0)), Implies(Eq(v.Tag, IntLit(0)), Eq(v.X, IntLit(0))))
		}
	}
	rec(v)
	return out
}

// iteVal merges two values of the same shape.
func (f *Frame) iteVal(c *Term, a, b *Val) *Val {
	if a == b {
		return a
	}
	if a.K == VAddr || b.K == VAddr {
		if a.K != b.K || a.Addr.Kind != b.Addr.Kind || a.Addr.Key != b.Addr.Key || a.Addr.Path != b.Addr.Path {
			f.E.fail("cannot merge addresses of different shape (%s vs %s)", a, b)
		}
		na := *a.Addr
		if a.Addr.Obj != nil {
			na.Obj = Ite(c, a.Addr.Obj, b.Addr.Obj)
		}
		if a.Addr.Base != nil {
			na.Base = Ite(c, a.Addr.Base, b.Addr.Base)
			na.Idx = Ite(c, a.Addr.Idx, b.Addr.Idx)
		}
		return &Val{K: VAddr, T: a.T, Addr: &na}
	}
	if a.K == VFunc || b.K == VFunc {
		if a.K == b.K && a.Fn == b.Fn && a.Fn != nil && len(a.Bind) == 0 && len(b.Bind) == 0 {
			return a
		}
		return &Val{K: VFunc, T: a.T, X: f.fresh("fn", IntS)}
	}
	if a.K != b.K {
		f.E.fail("cannot merge values of different kinds: %s vs %s", a, b)
	}
	la, lb := a.leaves(), b.leaves()
	if len(la) != len(lb) {
		f.E.fail("cannot merge values with different leaf counts: %s vs %s", a, b)
	}
	ts := make([]*Term, len(la))
	for i := range la {
		ts[i] = Ite(c, la[i], lb[i])
	}
	t := a.T
	r := valFromLeavesOrShape(a, ts, f.E.Mode)
	r.T = t
	if len(a.Ghost) > 0 || len(b.Ghost) > 0 {
		r.Ghost = map[string]*Term{}
		for _, k := range a.ghostKeys() {
			bv, ok := b.Ghost[k]
			if !ok {
				f.E.fail("ghost component %s missing on one side of a merge", k)
			}
			r.Ghost[k] = Ite(c, a.Ghost[k], bv)
		}
	}
	if a.Lit != nil && b.Lit != nil && *a.Lit == *b.Lit {
		r.Lit = a.Lit
	}
	return r
}

// rebuild a value with the shape of proto from leaf terms
func valFromLeavesOrShape(proto *Val, ts []*Term, m Mode) *Val {
	pos := 0
	var rec func(p *Val) *Val
	rec = func(p *Val) *Val {
		switch p.K {
		case VScalar:
			v := &Val{K: VScalar, T: p.T, X: ts[pos]}
			pos++
			return v
		case VBytes:
			v := &Val{K: VBytes, T: p.T, Arr: ts[pos], Off: ts[pos+1], Len: ts[pos+2]}
			pos += 3
			return v
		case VSlice:
			v := &Val{K: VSlice, T: p.T, Base: ts[pos], Off: ts[pos+1], Len: ts[pos+2], Cap: ts[pos+3]}
			pos += 4
			return v
		case VIface:
			v := &Val{K: VIface, T: p.T, Tag: ts[pos], X: ts[pos+1]}
			pos += 2
			return v
		case VStruct, VTuple:
			v := &Val{K: p.K, T: p.T}
			for _, x := range p.Fields {
				v.Fields = append(v.Fields, rec(x))
			}
			return v
		case VFunc:
			v := &Val{K: VFunc, T: p.T, X: ts[pos]}
			pos++
			return v
		case VArr:
			n := len(p.Snap)
			v := &Val{K: VArr, T: p.T, Snap: append([]*Term(nil), ts[pos:pos+n]...), Off: ts[pos+n]}
			pos += n + 1
			return v
		}
		panic("valFromLeavesOrShape")
	}
	return rec(proto)
}

// nameVal names all non-atomic leaves of a value.
func (f *Frame) nameVal(v *Val, hint string) *Val {
	switch v.K {
	case VAddr, VFunc:
		return v
	}
	ls := v.leaves()
	changed := false
	for i, l := range ls {
		if !l.IsAtom() {
			ls[i] = f.E.name(l, f.prefix+hint)
			changed = true
		}
	}
	var r *Val
	if changed {
		r = valFromLeavesOrShape(v, ls, f.E.Mode)
		r.Lit = v.Lit
		r.Boxed = v.Boxed
	} else {
		r = v
	}
	if len(v.Ghost) > 0 {
		if r == v {
			c := *v
			r = &c
		}
		r.Ghost = map[string]*Term{}
		for k, g := range v.Ghost {
			r.Ghost[k] = f.E.name(g, f.prefix+hint+"."+k)
		}
	}
	return r
}

// ---------------------------------------------------------------- CFG analysis

func (f *Frame) analyse() []*ssa.BasicBlock {
	fn := f.Fn
	if len(fn.Blocks) == 0 {
		f.E.fail("function %s has no body", fn)
	}
	// reachable blocks from entry
	reach := map[int]bool{}
	var dfs func(b *ssa.BasicBlock)
	dfs = func(b *ssa.BasicBlock) {
		if reach[b.Index] {
			return
		}
		reach[b.Index] = true
		for _, s := range b.Succs {
			dfs(s)
		}
	}
	dfs(fn.Blocks[0])
	// back edges: u->h where h dominates u
	f.loops = map[int]*loopInfo{}
	for _, b := range fn.Blocks {
		if !reach[b.Index] {
			continue
		}
		for _, s := range b.Succs {
			if s.Dominates(b) {
				li := f.loops[s.Index]
				if li == nil {
					li = &loopInfo{header: s, blocks: map[int]bool{s.Index: true}}
					f.loops[s.Index] = li
				}
				li.backs = append(li.backs, b)
				// natural loop body
				var stack []*ssa.BasicBlock
				if !li.blocks[b.Index] {
					li.blocks[b.Index] = true
					stack = append(stack, b)
				}
				for len(stack) > 0 {
					x := stack[len(stack)-1]
					stack = stack[:len(stack)-1]
					for _, p := range x.Preds {
						if !li.blocks[p.Index] && reach[p.Index] {
							li.blocks[p.Index] = true
							stack = append(stack, p)
						}
					}
				}
			}
		}
	}
	var hdrs []int
	for h := range f.loops {
		hdrs = append(hdrs, h)
	}
	// loop ordinals in source order of the header's position
	// loop ordinals follow source order: smallest source position of any
	// instruction inside the loop (an enclosing loop comes before its inner loops)
	loopPos := func(h int) token.Pos {
		best := token.NoPos
		for bi := range f.loops[h].blocks {
			for _, in := range fn.Blocks[bi].Instrs {
				switch in.(type) {
				case *ssa.Phi, *ssa.DebugRef:
					continue // a phi carries the position of the variable's declaration, not of the loop
				}
				if p := in.Pos(); p.IsValid() && (!best.IsValid() || p < best) {
					best = p
				}
			}
		}
		return best
	}
	sort.Slice(hdrs, func(i, j int) bool {
		pi, pj := loopPos(hdrs[i]), loopPos(hdrs[j])
		if pi != pj {
			return pi < pj
		}
		if ni, nj := len(f.loops[hdrs[i]].blocks), len(f.loops[hdrs[j]].blocks); ni != nj {
			return ni > nj
		}
		return hdrs[i] < hdrs[j]
	})
	for i, h := range hdrs {
		f.loops[h].ordinal = i + 1
		f.loopList = append(f.loopList, f.loops[h])
	}
	if f.isTop && f.C != nil {
		// a clause for a loop the function does not have would silently check nothing
		for _, m := range []map[int][]*Clause{f.C.LoopInv, f.C.LoopDec, f.C.LoopApply, f.C.LoopMod} {
			for ord := range m {
				if ord < 1 || ord > len(hdrs) {
					f.E.StaleLoops = append(f.E.StaleLoops, ord)
				}
			}
		}
	}
	// topological order ignoring back edges (reverse postorder)
	var order []*ssa.BasicBlock
	seen := map[int]bool{}
	var visit func(b *ssa.BasicBlock)
	visit = func(b *ssa.BasicBlock) {
		seen[b.Index] = true
		for _, s := range b.Succs {
			if s.Dominates(b) { // back edge
				continue
			}
			if !seen[s.Index] {
				visit(s)
			}
		}
		order = append(order, b)
	}
	visit(fn.Blocks[0])
	for i, j := 0, len(order)-1; i < j; i, j = i+1, j-1 {
		order[i], order[j] = order[j], order[i]
	}
	// irreducible check: every retreating edge must be a back edge
	pos := map[int]int{}
	for i, b := range order {
		pos[b.Index] = i
	}
	for _, b := range order {
		for _, s := range b.Succs {
			if pos[s.Index] <= pos[b.Index] && !s.Dominates(b) {
				f.E.fail("irreducible control flow in %s", fn)
			}
		}
	}
	return order
}

func blockPos(b *ssa.BasicBlock) token.Pos {
	// position of the loop: the first instruction with a position among the
	// header and (for loops whose header has none) its successors
	best := token.NoPos
	for _, in := range b.Instrs {
		if p := in.Pos(); p.IsValid() {
			if !best.IsValid() || p < best {
				best = p
			}
		}
	}
	if best.IsValid() {
		return best
	}
	for _, s := range b.Succs {
		for _, in := range s.Instrs {
			if p := in.Pos(); p.IsValid() {
				if !best.IsValid() || p < best {
					best = p
				}
			}
		}
	}
	return best
}

// edge condition from block u to its k-th successor
func (f *Frame) edgeCond(u *ssa.BasicBlock, k int) *Term {
	if len(u.Instrs) == 0 {
		return True
	}
	switch t := u.Instrs[len(u.Instrs)-1].(type) {
	case *ssa.If:
		c := f.val(t.Cond).X
		if k == 0 {
			return c
		}
		return Not(c)
	}
	return True
}

// ---------------------------------------------------------------- body encoding

func (f *Frame) encodeBody(entryGuard *Term, entryState *State) {
	order := f.analyse()
	f.guards = map[int]*Term{}
	f.outState = map[int]*State{}
	f.entryState = entryState
	for _, b := range order {
		var g *Term
		var st *State
		li := f.loops[b.Index]
		if b.Index == 0 && len(b.Preds) == 0 {
			g = entryGuard
			st = entryState.Clone()
		} else {
			// merge predecessors (non-back edges)
			type inEdge struct {
				g    *Term
				st   *State
				pidx int
			}
			var ins []inEdge
			for pi, p := range b.Preds {
				if b.Dominates(p) && li != nil { // back edge
					continue
				}
				pg, ok := f.guards[p.Index]
				if !ok {
					continue // unreachable predecessor
				}
				// which successor index of p leads to b (a block may appear twice)
				var conds []*Term
				for k, s := range p.Succs {
					if s == b {
						conds = append(conds, f.edgeCond(p, k))
					}
				}
				eg := And(pg, Or(conds...))
				if dupPredBefore(b, pi) {
					continue
				}
				ins = append(ins, inEdge{eg, f.outState[p.Index], pi})
			}
			if len(ins) == 0 {
				continue // unreachable
			}
			var gs []*Term
			for _, e := range ins {
				gs = append(gs, e.g)
			}
			g = f.E.name(Or(gs...), fmt.Sprintf("%sg_b%d", f.prefix, b.Index))
			if f.prefix == "" && f.isTop && g.IsAtom() && g.Name != "" {
				if f.E.blockGuard == nil {
					f.E.blockGuard = map[string]int{}
					f.E.ancestors = forwardAncestors(f.Fn)
				}
				f.E.blockGuard[g.Name] = b.Index
			}
			// merge states
			st = NewState()
			keys := map[string]*Sort{}
			for _, e := range ins {
				for k, s := range e.st.sorts {
					keys[k] = s
				}
			}
			for _, k := range sortedKeys(keys) {
				s := keys[k]
				cur := ins[len(ins)-1].st.Get(k, s)
				for i := len(ins) - 2; i >= 0; i-- {
					cur = Ite(ins[i].g, ins[i].st.Get(k, s), cur)
				}
				st.Set(k, s, f.E.name(cur, f.prefix+"m$"+k))
			}
			// phis
			f.curGuard = g
			for _, in := range b.Instrs {
				phi, ok := in.(*ssa.Phi)
				if !ok {
					break
				}
				var cur *Val
				for i := len(ins) - 1; i >= 0; i-- {
					v := f.val(phi.Edges[ins[i].pidx])
					if cur == nil {
						cur = v
					} else {
						cur = f.iteVal(ins[i].g, v, cur)
					}
				}
				f.vals[phi] = f.nameVal(cur, "phi_"+phi.Name())
			}
		}
		f.curBlock = b
		f.curGuard = g
		f.st = st
		if li != nil {
			f.enterLoop(li, b)
		}
		f.guards[b.Index] = f.curGuard
		for _, in := range b.Instrs {
			if _, isPhi := in.(*ssa.Phi); isPhi {
				continue
			}
			f.instr(in)
		}
		f.outState[b.Index] = f.st
		// back edges leaving this block
		for k, s := range b.Succs {
			if l2 := f.loops[s.Index]; l2 != nil && s.Dominates(b) {
				f.backEdge(l2, b, k)
			}
		}
	}
}

func dupPredBefore(b *ssa.BasicBlock, pi int) bool {
	for j := 0; j < pi; j++ {
		if b.Preds[j] == b.Preds[pi] {
			return true
		}
	}
	return false
}

// loop header: check invariants on entry, havoc, assume invariants.
func (f *Frame) enterLoop(li *loopInfo, b *ssa.BasicBlock) {
	e := f.E
	li.preState = f.st
	li.modkeys = f.loopModKeys(li)
	if _, unknown := li.modkeys["*"]; unknown {
		e.fail("loop %d of %s calls code with unknown effects (function values); those callees need contracts", li.ordinal, f.Fn)
	}
	// 1. invariants on entry (phis currently hold the merged entering values)
	env := f.loopEnvFor(li, nil)
	invs := f.loopInvariants(li)
	for i, cl := range invs {
		t := f.evalBool(cl.E, f.envFor(env, f.st, cl))
		e.addObl("inv.init", fmt.Sprintf("loop%d.%d", li.ordinal, i+1), f.curGuard, t, cl.Where, f.clauseProps(cl))
	}
	// vacuity guard: the loop must be reachable from the function entry (a modelling gap that
	// makes it unreachable would discharge every obligation inside it for free)
	if f.isTop && len(invs) > 0 {
		e.Covers = append(e.Covers, &Obl{Name: fmt.Sprintf("%s/cover:loop%d", funcKey(e.Top), li.ordinal), Kind: "cover", Func: funcKey(e.Top), Ord: e.tick(), Guard: f.curGuard, Goal: False, Enc: e})
	}
	// decreases: remember nothing at entry
	// 2. havoc phis and modified keys
	li.phiNew = map[*ssa.Phi]*Val{}
	for _, in := range b.Instrs {
		phi, ok := in.(*ssa.Phi)
		if !ok {
			break
		}
		old := f.vals[phi]
		nv := f.havocLike(old, phi.Type(), "h_"+phiName(phi))
		f.vals[phi] = nv
		li.phiNew[phi] = nv
	}
	st := f.st.Clone()
	precise := f.loopPreciseKeys(li)
	allocPre := f.st.Get(allocKey, allocSort)
	f.E.noteVars(allocPre)
	for _, k := range sortedKeys(li.modkeys) {
		s := li.modkeys[k]
		if pk := precise[k]; pk != nil && s.K == SArray && s.Idx.K == SInt {
			cur := f.st.Get(k, s)
			f.E.noteVars(cur)
			if !pk.fresh {
				nt := cur
				for _, o := range pk.objs {
					nt = Store(nt, f.val(o).X, f.fresh("hv$"+k, s.Elem))
				}
				st.Set(k, s, f.E.name(nt, f.prefix+"hv$"+k))
				continue
			}
			nv := f.fresh("hv$"+k, s)
			ob := Bound{Name: "o!lf", S: IntS}
			ov := Var(ob.Name, IntS)
			conds := []*Term{allocatedIn(allocPre, ov)}
			for _, o := range pk.objs {
				conds = append(conds, Neq(ov, f.val(o).X))
			}
			f.assume(Forall([]Bound{ob}, Implies(And(conds...), Eq(Select(nv, ov), Select(cur, ov)))), "loop writes only the listed and freshly allocated objects")
			st.Set(k, s, nv)
			continue
		}
		nvk := f.fresh("hv$"+k, s)
		f.counterMonotone(k, s, f.st.Get(k, s), nvk)
		st.Set(k, s, nvk)
	}
	if _, ok := li.modkeys[allocKey]; ok {
		// allocation only grows
		oldA := f.st.Get(allocKey, allocSort)
		f.E.noteVars(oldA)
		f.assume(Ge(st.Get(allocKey, allocSort), oldA), "allocated objects stay allocated")
	}
	f.st = st
	for _, nv := range li.phiNew {
		f.assumeAllocated(nv)
	}
	// 3. assume invariants
	env2 := f.loopEnvFor(li, nil)
	for _, cl := range invs {
		t := f.evalBool(cl.E, f.envFor(env2, f.st, cl))
		f.assume(t, "loop invariant")
	}
	// lemma instances at the loop head (each lemma is an obligation of its own)
	if f.C != nil && !(f.E.NoInv && f.isTop) {
		for _, cl := range f.C.LoopApply[li.ordinal] {
			f.assume(f.lemmaInstance(cl, f.envFor(env2, f.st, cl)), "lemma instance "+cl.Text)
		}
	}
	// record decreases value at loop head
	li.envAt = env2
	for _, cl := range f.loopDecreases(li) {
		v := f.evalC(cl.E, f.envFor(env2, f.st, cl))
		f.decAtHead(li, cl, v.X)
	}
}

func phiName(phi *ssa.Phi) string {
	if phi.Comment != "" {
		return phi.Comment
	}
	return phi.Name()
}

// havocLike makes a fresh value with the shape of old.
func (f *Frame) havocLike(old *Val, t types.Type, hint string) *Val {
	switch old.K {
	case VAddr:
		na := *old.Addr
		if na.Obj != nil {
			na.Obj = f.fresh(hint+".obj", IntS)
		}
		if na.Base != nil {
			na.Base = f.fresh(hint+".base", IntS)
			na.Idx = f.fresh(hint+".idx", IntS)
		}
		return &Val{K: VAddr, T: old.T, Addr: &na}
	case VFunc:
		return &Val{K: VFunc, T: old.T, X: f.fresh(hint, IntS)}
	}
	ls := old.leaves()
	ts := make([]*Term, len(ls))
	for i, l := range ls {
		ts[i] = f.fresh(fmt.Sprintf("%s.%d", hint, i), l.S)
	}
	nv := valFromLeavesOrShape(old, ts, f.E.Mode)
	if len(old.Ghost) > 0 {
		nv.Ghost = map[string]*Term{}
		for _, k := range old.ghostKeys() {
			nv.Ghost[k] = f.fresh(hint+"."+k, old.Ghost[k].S)
		}
	}
	f.assumeWF(nv)
	return nv
}

var decHeads = map[*loopInfo]map[*Clause]*Term{}

func (f *Frame) decAtHead(li *loopInfo, cl *Clause, t *Term) {
	m := decHeads[li]
	if m == nil {
		m = map[*Clause]*Term{}
		decHeads[li] = m
	}
	m[cl] = t
}

func (f *Frame) backEdge(li *loopInfo, u *ssa.BasicBlock, k int) {
	e := f.E
	g := And(f.guards[u.Index], f.edgeCond(u, k))
	// index of u among header preds
	pidx := -1
	for i, p := range li.header.Preds {
		if p == u {
			pidx = i
			break
		}
	}
	over := map[*ssa.Phi]*Val{}
	for _, in := range li.header.Instrs {
		phi, ok := in.(*ssa.Phi)
		if !ok {
			break
		}
		over[phi] = f.val(phi.Edges[pidx])
	}
	saveG := f.curGuard
	f.curGuard = g
	env := f.loopEnvFor(li, over)
	for i, cl := range f.loopInvariants(li) {
		t := f.evalBool(cl.E, f.envFor(env, f.outState[u.Index], cl))
		e.addObl("inv.step", fmt.Sprintf("loop%d.%d", li.ordinal, i+1), g, t, cl.Where, f.clauseProps(cl))
	}
	for i, cl := range f.loopDecreases(li) {
		v := f.evalC(cl.E, f.envFor(env, f.outState[u.Index], cl))
		head := decHeads[li][cl]
		e.addObl("decreases", fmt.Sprintf("loop%d.%d", li.ordinal, i+1), g, And(Lt(v.X, head), Ge(head, IntLit(0))), cl.Where, f.clauseProps(cl))
	}
	f.curGuard = saveG
}

func (f *Frame) loopInvariants(li *loopInfo) []*Clause {
	if f.C == nil {
		f.E.fail("loop in %s needs invariants but the function has no contract", f.Fn)
	}
	if f.E.NoInv && f.isTop {
		return nil
	}
	return f.C.LoopInv[li.ordinal]
}
func (f *Frame) loopDecreases(li *loopInfo) []*Clause {
	if f.C == nil || f.E.NoInv && f.isTop {
		return nil
	}
	return f.C.LoopDec[li.ordinal]
}

func (f *Frame) clauseProps(cl *Clause) []string {
	if len(cl.Props) > 0 {
		return cl.Props
	}
	if f.C != nil {
		return f.C.Props
	}
	return f.E.TopC.Props
}

// loopEnvFor builds the name environment at a loop header; over replaces phi values.
func (f *Frame) loopEnvFor(li *loopInfo, over map[*ssa.Phi]*Val) *loopEnv {
	env := &loopEnv{phis: map[string]*Val{}, pre: li.preState, hdr: li.header}
	// enclosing loops first (outer phis visible by name), then this loop
	var chain []*loopInfo
	for _, l := range f.loopList {
		if l != li && l.blocks[li.header.Index] {
			chain = append(chain, l)
		}
	}
	chain = append(chain, li)
	// variables merged before the loop (not loop-carried): nearest dominating phi by source name
	for b := li.header.Idom(); b != nil; b = b.Idom() {
		for _, in := range b.Instrs {
			phi, ok := in.(*ssa.Phi)
			if !ok {
				break
			}
			if phi.Comment == "" {
				continue
			}
			if _, seen := env.phis[phi.Comment]; seen {
				continue
			}
			if v := f.vals[phi]; v != nil {
				env.phis[phi.Comment] = v
			}
		}
	}
	// local variables assigned once before the loop: the closest dominating
	// debug reference (source identifier -> SSA value)
	for b := li.header.Idom(); b != nil; b = b.Idom() {
		for i := len(b.Instrs) - 1; i >= 0; i-- {
			dr, ok := b.Instrs[i].(*ssa.DebugRef)
			if !ok || dr.IsAddr {
				continue
			}
			id, ok := dr.Expr.(*ast.Ident)
			if !ok {
				continue
			}
			if _, seen := env.phis[id.Name]; seen {
				continue
			}
			if v, ok := f.vals[dr.X]; ok && v != nil {
				env.phis[id.Name] = v
			} else if _, isConst := dr.X.(*ssa.Const); isConst {
				env.phis[id.Name] = f.val(dr.X)
			}
		}
	}
	for _, l := range chain {
		for _, in := range l.header.Instrs {
			phi, ok := in.(*ssa.Phi)
			if !ok {
				break
			}
			v := f.vals[phi]
			if l == li && over != nil {
				v = over[phi]
			}
			if v == nil {
				continue
			}
			if _, seen := env.phis[phiName(phi)]; seen && l != li {
				// a nearer dominating definition of the same variable (found on the way up from
				// this loop's header) is the current one; the enclosing loop's header value is older
				if nearerThan(li.header, phi, f, phiName(phi)) {
					continue
				}
			}
			env.phis[phiName(phi)] = v
			if phi.Comment == "rangeindex" && l == li {
				env.iter = Add(v.X, IntLit(1))
			}
		}
	}
	if env.iter == nil {
		// an indexed loop "for i := 0; ...; i++" written instead of a range loop: its canonical
		// induction variable (the only header phi that starts at the constant 0 outside the loop
		// and is incremented by the constant 1 inside it) is the iteration count
		var cand *ssa.Phi
		n := 0
		for _, in := range li.header.Instrs {
			phi, ok := in.(*ssa.Phi)
			if !ok {
				break
			}
			if isCanonicalInduction(phi, li) {
				cand = phi
				n++
			}
		}
		if n == 1 {
			v := f.vals[cand]
			if over != nil {
				v = over[cand]
			}
			if v != nil && v.X != nil {
				env.iter = v.X
			}
		}
	}
	return env
}

func isCanonicalInduction(phi *ssa.Phi, li *loopInfo) bool {
	if bt, ok := phi.Type().Underlying().(*types.Basic); !ok || bt.Info()&types.IsInteger == 0 {
		return false
	}
	if len(phi.Edges) != 2 {
		return false
	}
	outside, inside := 0, 0
	for i, ed := range phi.Edges {
		pred := phi.Block().Preds[i]
		if li.blocks[pred.Index] {
			bo, ok := ed.(*ssa.BinOp)
			if !ok || bo.Op != token.ADD || bo.X != ssa.Value(phi) {
				return false
			}
			c, ok := bo.Y.(*ssa.Const)
			if !ok || c.Value == nil || c.Value.ExactString() != "1" {
				return false
			}
			inside++
		} else {
			c, ok := ed.(*ssa.Const)
			if !ok || c.Value == nil || c.Value.ExactString() != "0" {
				return false
			}
			outside++
		}
	}
	return outside == 1 && inside == 1
}


// lemmaInstance: name(args...) — the body of the named lemma with its quantified
// variables bound to the arguments.
func (f *Frame) lemmaInstance(cl *Clause, env *Env) *Term {
	ex := cl.E
	if ex.K != "call" || ex.A.K != "id" {
		f.E.fail("%s: apply needs lemma(args)", cl.Where)
	}
	var lm *Lemma
	for _, x := range f.E.P.Cs.Lemmas {
		if x.Name == ex.A.Name {
			lm = x
		}
	}
	if lm == nil {
		f.E.fail("%s: unknown lemma %s", cl.Where, ex.A.Name)
	}
	if lm.E.K != "quant" || lm.E.Op != "forall" || len(lm.E.Vars) != len(ex.Args) {
		f.E.fail("%s: lemma %s takes %d arguments", cl.Where, lm.Name, len(lm.E.Vars))
	}
	for _, u := range lm.Uses {
		f.E.Uses[u] = true
	}
	nenv := *env
	nenv.Bound = map[string]*Val{}
	for k, v := range env.Bound {
		nenv.Bound[k] = v
	}
	for i, v := range lm.E.Vars {
		nenv.Bound[v.Name] = f.evalC(ex.Args[i], env)
	}
	return f.evalBool(lm.E.A, &nenv)
}


// forwardAncestors: for every block, the blocks from which it can be reached without
// taking a back edge (an edge whose target dominates its source).
func forwardAncestors(fn *ssa.Function) map[int]map[int]bool {
	anc := map[int]map[int]bool{}
	var visit func(b *ssa.BasicBlock) map[int]bool
	visit = func(b *ssa.BasicBlock) map[int]bool {
		if m, ok := anc[b.Index]; ok {
			return m
		}
		m := map[int]bool{b.Index: true}
		anc[b.Index] = m
		for _, p := range b.Preds {
			if b.Dominates(p) {
				continue // back edge
			}
			for k := range visit(p) {
				m[k] = true
			}
		}
		return m
	}
	for _, b := range fn.Blocks {
		visit(b)
	}
	return anc
}


// nearerThan: walking up the dominator tree from hdr, a phi or debug reference named name
// is met before reaching the block of outer.
func nearerThan(hdr *ssa.BasicBlock, outer *ssa.Phi, f *Frame, name string) bool {
	for b := hdr.Idom(); b != nil && b != outer.Block(); b = b.Idom() {
		for _, in := range b.Instrs {
			if phi, ok := in.(*ssa.Phi); ok && phi.Comment == name && f.vals[phi] != nil {
				return true
			}
		}
	}
	return false
}
