package main

import (
	"sync"
	"fmt"
	"go/token"
	"go/types"
	"sort"
	"strings"

	"golang.org/x/tools/go/ssa"
)

func (e *Enc) declareFun(name string, arity int) {
	sorts := make([]*Sort, arity)
	for i := range sorts {
		sorts[i] = IntS
	}
	e.declareFunSorted(name, sorts, IntS)
}

type funDecl struct {
	name string
	args []*Sort
	res  *Sort
}

var _ = sort.Strings

func (e *Enc) declareFunSorted(name string, args []*Sort, res *Sort) {
	key := "fun:" + name
	if _, ok := e.decls[key]; ok {
		return
	}
	e.decls[key] = res
	var as []string
	for _, a := range args {
		as = append(as, a.String())
	}
	e.funDecls = append(e.funDecls, fmt.Sprintf("(declare-fun %s (%s) %s)", quoteSym(name), strings.Join(as, " "), res))
}

// ---------------------------------------------------------------- maps

type mapKeys struct {
	dom, length string
	domS        *Sort
	ksort       *Sort
	vleaves     []leaf
	vkey        string
	vt          types.Type
}

func (f *Frame) mapInfo(t types.Type) *mapKeys {
	mt := t.Underlying().(*types.Map)
	ks, _, ok := scalarSortOf(mt.Key(), f.E.Mode)
	if !ok {
		if _, isIface := mt.Key().Underlying().(*types.Interface); isIface {
			// interface keys: (tag, payload) packed by the abstract bijection ikey (spec library ikey)
			ks, ok = IntS, true
			f.E.Uses["ikey"] = true
		}
	}
	if !ok {
		f.E.fail("map key type %s is outside the subset", mt.Key())
	}
	tk := typeKey(t)
	mk := &mapKeys{dom: "MD$" + tk, length: "ML$" + tk, ksort: ks, vkey: "MV$" + tk, vt: mt.Elem()}
	mk.domS = ArrayS(IntS, ArrayS(ks, BoolS))
	if st, ok := mt.Elem().Underlying().(*types.Struct); !ok || st.NumFields() > 0 {
		mk.vleaves = leavesOf(mt.Elem(), f.E.Mode)
	}
	return mk
}

// keyTerm: the SMT term of a map key value (interfaces are packed with ikey)
func (f *Frame) keyTerm(k *Val) *Term {
	if k.K == VIface {
		f.E.Uses["ikey"] = true
		return App("ikey", IntS, k.Tag, k.X)
	}
	if k.K != VScalar {
		f.E.fail("map key value outside the subset")
	}
	return k.X
}

// keyTermFor: as keyTerm, for a key of map type mt given in a contract: a concrete value
// used as key of an interface-keyed map is boxed first (as the Go conversion would)
func (f *Frame) keyTermFor(mt types.Type, k *Val) *Term {
	if m, ok := mt.Underlying().(*types.Map); ok && k.K == VScalar && k.T != nil {
		if _, isIface := m.Key().Underlying().(*types.Interface); isIface {
			if _, already := k.T.Underlying().(*types.Interface); !already {
				f.E.Uses["ikey"] = true
				return App("ikey", IntS, IntLit(int64(typeTag(k.T))), k.X)
			}
		}
	}
	return f.keyTerm(k)
}

// keyVal: the Go value of a key term
func (f *Frame) keyVal(k *Term, t types.Type) *Val {
	if _, isIface := t.Underlying().(*types.Interface); isIface {
		f.E.Uses["ikey"] = true
		return &Val{K: VIface, T: t, Tag: App("ikey_tag", IntS, k), X: App("ikey_pay", IntS, k)}
	}
	return &Val{K: VScalar, T: t, X: k}
}

func (f *Frame) mapDom(mk *mapKeys, m *Term, st *State) *Term {
	d := st.Get(mk.dom, mk.domS)
	f.E.noteVars(d)
	return Select(d, m)
}

func (f *Frame) mapLen(mk *mapKeys, m *Term, st *State) *Term {
	l := st.Get(mk.length, ArrayS(IntS, IntS))
	f.E.noteVars(l)
	return Select(l, m)
}

func (f *Frame) mapValue(mk *mapKeys, m, k *Term, st *State) *Val {
	ts := make([]*Term, len(mk.vleaves))
	for i, l := range mk.vleaves {
		a := st.Get(mk.vkey+l.path, ArrayS(IntS, ArrayS(mk.ksort, l.sort)))
		f.E.noteVars(a)
		ts[i] = Select(Select(a, m), k)
	}
	return valFromLeaves(mk.vt, f.E.Mode, ts)
}

func (f *Frame) mapInitEmpty(r *Term, t types.Type) {
	mk := f.mapInfo(t)
	f.st = f.st.Clone()
	d := f.st.Get(mk.dom, mk.domS)
	f.E.noteVars(d)
	f.st.Set(mk.dom, mk.domS, f.E.name(Store(d, r, ConstArray(ArrayS(mk.ksort, BoolS), False)), f.prefix+"s$"+mk.dom))
	l := f.st.Get(mk.length, ArrayS(IntS, IntS))
	f.E.noteVars(l)
	f.st.Set(mk.length, ArrayS(IntS, IntS), f.E.name(Store(l, r, IntLit(0)), f.prefix+"s$"+mk.length))
}

func (f *Frame) mapLookup(in *ssa.Lookup, m *Val) {
	mk := f.mapInfo(in.X.Type())
	kt := f.keyTerm(f.val(in.Index))
	has := And(Neq(m.X, IntLit(0)), Select(f.mapDom(mk, m.X, f.st), kt))
	zero := f.zeroVal(mk.vt)
	var val *Val
	if len(mk.vleaves) == 0 {
		val = zero
	} else {
		stored := f.mapValue(mk, m.X, kt, f.st)
		val = f.iteVal(has, stored, zero)
	}
	val = f.nameVal(val, in.Name())
	f.assumeWF(val)
	f.assumeAllocated(val)
	if in.CommaOk {
		f.vals[in] = &Val{K: VTuple, T: in.Type(), Fields: []*Val{val, {K: VScalar, T: types.Typ[types.Bool], X: f.E.name(has, f.prefix+in.Name()+".ok")}}}
	} else {
		f.vals[in] = val
	}
	f.assume(Ge(f.mapLen(mk, m.X, f.st), IntLit(0)), "map length is non-negative")
	f.assume(Implies(has, Gt(f.mapLen(mk, m.X, f.st), IntLit(0))), "non-empty map has positive length")
}

func (f *Frame) mapStore(mt types.Type, m, k *Term, v *Val) {
	mk := f.mapInfo(mt)
	f.st = f.st.Clone()
	d := f.st.Get(mk.dom, mk.domS)
	f.E.noteVars(d)
	dm := Select(d, m)
	had := Select(dm, k)
	f.st.Set(mk.dom, mk.domS, f.E.name(Store(d, m, Store(dm, k, True)), f.prefix+"s$"+mk.dom))
	l := f.st.Get(mk.length, ArrayS(IntS, IntS))
	f.E.noteVars(l)
	f.st.Set(mk.length, ArrayS(IntS, IntS), f.E.name(Store(l, m, Ite(had, Select(l, m), Add(Select(l, m), IntLit(1)))), f.prefix+"s$"+mk.length))
	if len(mk.vleaves) > 0 {
		var vs []*Term
		if v.K == VAddr && v.Addr != nil && v.Addr.Kind == AElem && v.Addr.Path == "" {
			vs = []*Term{f.elemPtr(v.Addr)}
		} else {
			vs = v.leaves()
		}
		for i, lf := range mk.vleaves {
			key := mk.vkey + lf.path
			s := ArrayS(IntS, ArrayS(mk.ksort, lf.sort))
			a := f.st.Get(key, s)
			f.E.noteVars(a)
			f.st.Set(key, s, f.E.name(Store(a, m, Store(Select(a, m), k, vs[i])), f.prefix+"s$"+key))
		}
	}
}

func (f *Frame) mapUpdate(in *ssa.MapUpdate) {
	m := f.val(in.Map)
	k := f.val(in.Key)
	v := f.val(in.Value)
	kt := f.keyTerm(k)
	if f.nopanic {
		f.E.addObl("nopanic.nilmap", f.E.P.exprTextAt(in.Pos(), isExprNode), f.curGuard, Neq(m.X, IntLit(0)), f.where(in.Pos()), f.props())
	} else {
		f.assume(Neq(m.X, IntLit(0)), "assignment to non-nil map")
	}
	f.mapStore(in.Map.Type(), m.X, kt, v)
}

func (f *Frame) mapDelete(mt types.Type, m, k *Term) {
	mk := f.mapInfo(mt)
	f.st = f.st.Clone()
	d := f.st.Get(mk.dom, mk.domS)
	f.E.noteVars(d)
	dm := Select(d, m)
	had := And(Neq(m, IntLit(0)), Select(dm, k))
	f.st.Set(mk.dom, mk.domS, f.E.name(Store(d, m, Store(dm, k, False)), f.prefix+"s$"+mk.dom))
	l := f.st.Get(mk.length, ArrayS(IntS, IntS))
	f.E.noteVars(l)
	f.st.Set(mk.length, ArrayS(IntS, IntS), f.E.name(Store(l, m, Ite(had, Sub(Select(l, m), IntLit(1)), Select(l, m))), f.prefix+"s$"+mk.length))
}

// range over map / string.  The ghost visited-set lives in the state so that
// it is loop-carried: key "VIS$<range instr>".
func (f *Frame) rangeInit(in *ssa.Range) {
	x := f.val(in.X)
	if f.ranges == nil {
		f.ranges = map[ssa.Value]*rangeState{}
	}
	if _, ok := in.X.Type().Underlying().(*types.Map); ok {
		mk := f.mapInfo(in.X.Type())
		rs := &rangeState{kind: "map", m: x, visKey: "VIS$" + f.prefix + in.Name(), ksort: mk.ksort}
		f.ranges[in] = rs
		f.st = f.st.Clone()
		f.st.Set(rs.visKey, ArrayS(mk.ksort, BoolS), ConstArray(ArrayS(mk.ksort, BoolS), False))
		f.st.Set(rs.visKey+"$n", IntS, IntLit(0))
		f.vals[in] = &Val{K: VScalar, T: in.Type(), X: IntLit(0)}
		return
	}
	rs := &rangeState{kind: "string", m: x, visKey: "POS$" + f.prefix + in.Name()}
	f.ranges[in] = rs
	f.st = f.st.Clone()
	f.st.Set(rs.visKey, IntS, IntLit(0))
	f.vals[in] = &Val{K: VScalar, T: in.Type(), X: IntLit(0)}
}

func (f *Frame) rangeNext(in *ssa.Next) {
	rs := f.ranges[in.Iter]
	if rs == nil {
		f.E.fail("next on unknown iterator")
	}
	tup := in.Type().(*types.Tuple)
	if rs.kind == "map" {
		mt := in.Iter.(*ssa.Range).X.Type()
		mk := f.mapInfo(mt)
		visS := ArrayS(mk.ksort, BoolS)
		vis := f.st.Get(rs.visKey, visS)
		nvis := f.st.Get(rs.visKey+"$n", IntS)
		ok := f.fresh(in.Name()+".ok", BoolS)
		k := f.fresh(in.Name()+".k", mk.ksort)
		dom := f.mapDom(mk, rs.m.X, f.st)
		n := f.mapLen(mk, rs.m.X, f.st)
		f.assume(Implies(ok, And(Neq(rs.m.X, IntLit(0)), Select(dom, k), Not(Select(vis, k)))), "range yields an unvisited key")
		f.assume(Eq(ok, Lt(nvis, n)), "range continues while unvisited keys remain")
		f.assume(And(Ge(nvis, IntLit(0)), Ge(n, IntLit(0))), "counts")
		// when exhausted every key has been visited
		kb := Bound{Name: "k!" + in.Name(), S: mk.ksort}
		kv := Var(kb.Name, kb.S)
		f.assume(Implies(Not(ok), Forall([]Bound{kb}, Implies(Select(dom, kv), Select(vis, kv)))), "range exhausted: all keys visited")
		f.st = f.st.Clone()
		f.st.Set(rs.visKey, visS, f.E.name(Ite(ok, Store(vis, k, True), vis), f.prefix+"vis"))
		f.st.Set(rs.visKey+"$n", IntS, f.E.name(Ite(ok, Add(nvis, IntLit(1)), nvis), f.prefix+"nvis"))
		kval := f.keyVal(k, tup.At(1).Type())
		var vval *Val
		if isInvalidType(tup.At(2).Type()) {
			vval = &Val{K: VScalar, T: tup.At(2).Type(), X: IntLit(0)}
		} else if len(mk.vleaves) == 0 {
			vval = f.zeroVal(mk.vt)
		} else {
			vval = f.nameVal(f.mapValue(mk, rs.m.X, k, f.st), in.Name()+".v")
			f.assumeWF(vval)
			f.assumeAllocated(vval)
		}
		if isInvalidType(tup.At(1).Type()) {
			kval = &Val{K: VScalar, X: IntLit(0)}
		} else {
			f.assumeWF(kval)
			f.assumeAllocated(kval)
		}
		f.vals[in] = &Val{K: VTuple, T: in.Type(), Fields: []*Val{{K: VScalar, T: types.Typ[types.Bool], X: ok}, kval, vval}}
		return
	}
	// string: ok iff pos < len; yields index pos and a rune; advances by 1..4
	pos := f.st.Get(rs.visKey, IntS)
	n := f.strLen(rs.m)
	ok := Lt(pos, n)
	f.assume(Ge(pos, IntLit(0)), "string iterator position is non-negative")
	r := f.fresh(in.Name()+".r", IntS)
	w := f.fresh(in.Name()+".w", IntS)
	f.assume(And(Ge(w, IntLit(1)), Le(w, IntLit(4)), Le(Add(pos, w), n)), "rune width")
	f.assume(And(Ge(r, IntLit(0)), Le(r, IntLit(0x10FFFF))), "rune range")
	b0 := f.byteAt(rs.m, pos)
	f.assume(Implies(And(ok, Lt(b0, IntLit(128))), And(Eq(r, b0), Eq(w, IntLit(1)))), "ASCII bytes decode to themselves")
	f.assume(Implies(And(ok, Ge(b0, IntLit(128))), Ge(r, IntLit(128))), "non-ASCII lead byte decodes to a non-ASCII rune")
	for i := int64(1); i < 4; i++ {
		f.assume(Implies(And(ok, Gt(w, IntLit(i))), Ge(f.byteAt(rs.m, Add(pos, IntLit(i))), IntLit(128))), "bytes of a multi-byte rune are >= 0x80")
	}
	f.E.Trusted["range over string: decodes one rune per iteration (ASCII exact, others abstract)"] = true
	f.st = f.st.Clone()
	f.st.Set(rs.visKey, IntS, f.E.name(Ite(ok, Add(pos, w), pos), f.prefix+"pos"))
	kval := &Val{K: VScalar, T: tup.At(1).Type(), X: pos}
	rval := &Val{K: VScalar, T: tup.At(2).Type(), X: r}
	f.vals[in] = &Val{K: VTuple, T: in.Type(), Fields: []*Val{{K: VScalar, T: types.Typ[types.Bool], X: f.E.name(ok, f.prefix+in.Name()+".ok")}, kval, rval}}
}

func isInvalidType(t types.Type) bool {
	b, ok := t.(*types.Basic)
	return ok && b.Kind() == types.Invalid
}

// ---------------------------------------------------------------- builtins

func (f *Frame) builtin(in *ssa.Call, b *ssa.Builtin) {
	args := in.Call.Args
	switch b.Name() {
	case "len":
		x := f.val(args[0])
		switch x.K {
		case VSlice:
			f.set(in, &Val{K: VScalar, T: in.Type(), X: x.Len})
		case VBytes:
			f.set(in, &Val{K: VScalar, T: in.Type(), X: x.Len})
		case VScalar:
			if _, ok := args[0].Type().Underlying().(*types.Map); ok {
				mk := f.mapInfo(args[0].Type())
				n := Ite(Eq(x.X, IntLit(0)), IntLit(0), f.mapLen(mk, x.X, f.st))
				f.set(in, &Val{K: VScalar, T: in.Type(), X: n})
				f.assume(Ge(f.vals[in].X, IntLit(0)), "len >= 0")
				// Go map semantics: the length is the number of keys, so a map that has a key is not empty
				kb := Bound{Name: "k!len" + in.Name(), S: mk.ksort}
				f.assume(Forall([]Bound{kb}, Implies(And(Neq(x.X, IntLit(0)), Select(f.mapDom(mk, x.X, f.st), Var(kb.Name, kb.S))), Ge(n, IntLit(1)))), "a map with a key has len >= 1")
				return
			}
			if x.X.S.K == SString {
				f.set(in, &Val{K: VScalar, T: in.Type(), X: f.strLen(x)})
				return
			}
			f.set(in, f.freshVal(in.Type(), in.Name())) // chan
			f.assume(Ge(f.vals[in].X, IntLit(0)), "len >= 0")
		case VAddr:
			f.set(in, &Val{K: VScalar, T: in.Type(), X: IntLit(x.Addr.ArrLen)})
		default:
			f.E.fail("len of %s", x)
		}
	case "cap":
		x := f.val(args[0])
		if x.K == VSlice {
			f.set(in, &Val{K: VScalar, T: in.Type(), X: x.Cap})
		} else {
			f.set(in, f.freshVal(in.Type(), in.Name()))
		}
	case "append":
		f.appendCall(in)
	case "copy":
		f.copyCall(in)
	case "close":
		c := f.val(args[0])
		cl := f.st.Get("closed", ArrayS(IntS, BoolS))
		f.E.noteVars(cl)
		if f.nopanic || f.lockDiscipline() {
			f.E.addObl("nopanic.close", f.E.P.exprTextAt(in.Pos(), isExprNode), f.curGuard, And(Neq(c.X, IntLit(0)), Not(Select(cl, c.X))), f.where(in.Pos()), f.props())
		}
		f.st = f.st.Clone()
		f.st.Set("closed", ArrayS(IntS, BoolS), f.E.name(Store(cl, c.X, True), f.prefix+"closed"))
	case "delete":
		m := f.val(args[0])
		k := f.val(args[1])
		f.mapDelete(args[0].Type(), m.X, f.keyTerm(k))
	case "print", "println":
	case "min", "max":
		cur := f.val(args[0]).X
		for _, a := range args[1:] {
			y := f.val(a).X
			if b.Name() == "min" {
				cur = Ite(Le(cur, y), cur, y)
			} else {
				cur = Ite(Ge(cur, y), cur, y)
			}
		}
		f.set(in, &Val{K: VScalar, T: in.Type(), X: cur})
	case "recover":
		f.set(in, f.zeroVal(in.Type()))
	default:
		f.E.fail("unsupported builtin %s", b.Name())
	}
}

func (f *Frame) lockDiscipline() bool { return f.C != nil && f.C.Opts["lockdiscipline"] != "" }

// element leaves of a slice's backing store
func (f *Frame) elemLeaves(t types.Type) (string, []leaf) {
	var et types.Type
	switch u := t.Underlying().(type) {
	case *types.Slice:
		et = u.Elem()
	default:
		f.E.fail("elemLeaves of %s", t)
	}
	return "M$" + typeKey(et), leavesOf(et, f.E.Mode)
}

const maxUnroll = 16

// append(s, elems...)
func (f *Frame) appendCall(in *ssa.Call) {
	s := f.val(in.Call.Args[0])
	y := f.val(in.Call.Args[1])
	st := in.Type()
	// number of appended elements
	var n *Term
	switch y.K {
	case VSlice:
		n = y.Len
	case VBytes:
		n = y.Len
	case VScalar:
		n = f.strLen(y)
	default:
		f.E.fail("append of %s", y)
	}
	if isZero(n) {
		f.vals[in] = s
		return
	}
	key, ls := f.elemLeaves(st)
	preState := f.st
	// Go semantics: in place when capacity suffices, otherwise a fresh backing array.
	fits := Le(Add(s.Len, n), s.Cap)
	nb := f.fresh("app_"+in.Name()+".base", IntS)
	alloc := f.st.Get(allocKey, allocSort)
	f.E.noteVars(alloc)
	f.assume(And(Ge(alloc, IntLit(1)), Implies(Not(fits), Eq(nb, alloc))), "append reallocates to a fresh backing array")
	f.assume(Implies(fits, Eq(nb, s.Base)), "append in place when capacity suffices")
	f.assume(Implies(And(fits, Eq(s.Base, IntLit(0))), False), "nil slice has no capacity")
	newCap := f.fresh("app_"+in.Name()+".cap", IntS)
	f.assume(And(Ge(newCap, Add(s.Len, n)), Implies(fits, Eq(newCap, s.Cap))), "capacity after append")
	newOff := Ite(fits, s.Off, IntLit(0))
	newOff = f.E.name(newOff, f.prefix+"app_"+in.Name()+".off")
	f.st = f.st.Clone()
	f.st.Set(allocKey, allocSort, f.E.name(Ite(fits, alloc, Add(alloc, IntLit(1))), f.prefix+"alloc"))
	// element count known?
	cnt, known := n.IntVal()
	bound := int64(-1)
	if known {
		bound = cnt
	} else if y.K == VSlice {
		// bounded by the capacity of a local array?
		if c, ok := y.Cap.IntVal(); ok && c <= maxUnroll {
			bound = c
		} else if o, ok2 := y.Off.IntVal(); ok2 {
			_ = o
		}
		if bound < 0 {
			if c, ok := f.sliceCapBound(in.Call.Args[1]); ok && c <= maxUnroll {
				bound = c
			}
		}
	}
	for _, l := range ls {
		k := key + l.path
		srt := ArrayS(IntS, ArrayS(IntS, l.sort))
		cur := f.st.Get(k, srt)
		f.E.noteVars(cur)
		oldArr := Select(cur, s.Base)
		// contents of the new backing array before the appended elements: the old
		// elements, shifted to offset 0 when reallocated
		var start *Term
		if bound >= 0 {
			// in-place base array, or relocated copy
			reloc := f.fresh("app_"+in.Name()+".reloc"+l.path, ArrayS(IntS, l.sort))
			// relocated copy: reloc[i] = old[off+i] for i < len   (quantified, with pattern)
			ib := Bound{Name: "i!" + in.Name(), S: IntS}
			iv := Var(ib.Name, IntS)
			q := Forall([]Bound{ib}, Implies(And(Ge(iv, IntLit(0)), Lt(iv, s.Len)), Eq(Select(reloc, iv), Select(oldArr, Add(s.Off, iv)))))
			f.assume(Implies(Not(fits), q), "append copies the old elements")
			start = Ite(fits, oldArr, reloc)
			arr := start
			for i := int64(0); i < bound; i++ {
				var ev *Term
				idx := IntLit(i)
				switch y.K {
				case VSlice:
					ycur := f.st.Get(k, srt)
					ev = Select(Select(ycur, y.Base), Add(y.Off, idx))
				case VBytes:
					if l.path != "" {
						f.E.fail("append of string to non-byte slice")
					}
					ev = Select(y.Arr, Add(y.Off, idx))
				case VScalar:
					ev = App("str.to_code", IntS, App("str.at", StringS, y.X, idx))
				}
				at := Add(Add(newOff, s.Len), idx)
				if known {
					arr = Store(arr, at, ev)
				} else {
					arr = Ite(Lt(idx, n), Store(arr, at, ev), arr)
				}
			}
			f.st.Set(k, srt, f.E.name(Store(cur, nb, arr), f.prefix+"s$"+k))
		} else {
			// unbounded run: result array characterised by quantified facts
			res := f.fresh("app_"+in.Name()+".arr"+l.path, ArrayS(IntS, l.sort))
			ib := Bound{Name: "i!" + in.Name(), S: IntS}
			iv := Var(ib.Name, IntS)
			// quantified over the absolute index of the result array, so that select(res, k) is the trigger
			f.assume(Forall([]Bound{ib}, Implies(And(Ge(iv, newOff), Lt(iv, Add(newOff, s.Len))), Eq(Select(res, iv), Select(oldArr, Add(s.Off, Sub(iv, newOff)))))), "append keeps the old elements")
			at0 := Add(newOff, s.Len)
			rel := Sub(iv, at0)
			var src *Term
			switch y.K {
			case VSlice:
				src = Select(Select(cur, y.Base), Add(y.Off, rel))
			case VBytes:
				src = Select(y.Arr, Add(y.Off, rel))
			case VScalar:
				src = App("str.to_code", IntS, App("str.at", StringS, y.X, rel))
			}
			f.assume(Forall([]Bound{ib}, Implies(And(Ge(iv, at0), Lt(iv, Add(at0, n))), Eq(Select(res, iv), src))), "append copies the new elements")
			// in place: everything outside the appended range is unchanged
			f.assume(Implies(fits, Forall([]Bound{ib}, Implies(Or(Lt(iv, Add(s.Off, s.Len)), Ge(iv, Add(Add(s.Off, s.Len), n))), Eq(Select(res, iv), Select(oldArr, iv))))), "in-place append leaves other elements alone")
			f.st.Set(k, srt, f.E.name(Store(cur, nb, res), f.prefix+"s$"+k))
		}
	}
	res := &Val{K: VSlice, T: st, Base: nb, Off: newOff, Len: Add(s.Len, n), Cap: newCap}
	if len(s.Ghost) > 0 {
		f.monitorAppend(in, s, y, n, bound, known, res, preState)
	}
	f.set(in, res)
}

// sliceCapBound: static capacity bound of a slice value derived from a local array.
func (f *Frame) sliceCapBound(v ssa.Value) (int64, bool) {
	if sl, ok := v.(*ssa.Slice); ok {
		if isArrayPtr(sl.X.Type()) {
			at := sl.X.Type().Underlying().(*types.Pointer).Elem().Underlying().(*types.Array)
			return at.Len(), true
		}
		return f.sliceCapBound(sl.X)
	}
	return 0, false
}

func (f *Frame) copyCall(in *ssa.Call) {
	dst := f.val(in.Call.Args[0])
	src := f.val(in.Call.Args[1])
	var sn *Term
	switch src.K {
	case VSlice, VBytes:
		sn = src.Len
	default:
		sn = f.strLen(src)
	}
	n := f.E.name(Ite(Le(dst.Len, sn), dst.Len, sn), f.prefix+in.Name()+".n")
	key, ls := f.elemLeaves(in.Call.Args[0].Type())
	f.st = f.st.Clone()
	for _, l := range ls {
		k := key + l.path
		srt := ArrayS(IntS, ArrayS(IntS, l.sort))
		cur := f.st.Get(k, srt)
		f.E.noteVars(cur)
		darr := Select(cur, dst.Base)
		res := f.fresh(in.Name()+".arr"+l.path, ArrayS(IntS, l.sort))
		ib := Bound{Name: "i!" + in.Name(), S: IntS}
		iv := Var(ib.Name, IntS)
		// stated over the absolute destination index p (= dst.Off + i), so that the solvers'
		// matching finds the instance for any read of the result
		var srcEl *Term
		rel := Sub(iv, dst.Off)
		switch src.K {
		case VSlice:
			srcEl = Select(Select(cur, src.Base), Add(src.Off, rel))
		case VBytes:
			srcEl = Select(src.Arr, Add(src.Off, rel))
		default:
			srcEl = App("str.to_code", IntS, App("str.at", StringS, src.X, rel))
		}
		f.assume(Forall([]Bound{ib}, Implies(And(Ge(iv, dst.Off), Lt(iv, Add(dst.Off, n))), Eq(Select(res, iv), srcEl))), "copy copies")
		f.assume(Forall([]Bound{ib}, Implies(Or(Lt(iv, dst.Off), Ge(iv, Add(dst.Off, n))), Eq(Select(res, iv), Select(darr, iv)))), "copy leaves the rest alone")
		f.st.Set(k, srt, f.E.name(Store(cur, dst.Base, res), f.prefix+"s$"+k))
	}
	f.set(in, &Val{K: VScalar, T: in.Type(), X: n})
}

// ---------------------------------------------------------------- calls

func (f *Frame) goStmt(in *ssa.Go) {
	// a new goroutine: nothing is assumed afterwards; its effects are those of
	// other threads (covered by lock invariants only)
	f.E.Assumes["goroutines started by verified functions affect only state protected by lock invariants or not modelled"] = true
}

func (f *Frame) deferStmt(in *ssa.Defer) {
	site := &deferSite{instr: in, key: fmt.Sprintf("DEFER$%s%d", f.prefix, len(f.defers)), index: len(f.defers)}
	f.defers = append(f.defers, site)
	f.st = f.st.Clone()
	f.st.Set(site.key, BoolS, True)
}

func (f *Frame) runDefers(in *ssa.RunDefers) {
	for i := len(f.defers) - 1; i >= 0; i-- {
		site := f.defers[i]
		flag := f.st.Get(site.key, BoolS)
		if t, ok := f.st.m[site.key]; !ok {
			continue // never reached on any path to here
		} else {
			flag = t
		}
		if flag.IsFalse() {
			continue
		}
		// conditional call: run under guard g ∧ flag, then merge
		saveG := f.curGuard
		before := f.st
		f.curGuard = f.E.name(And(saveG, flag), f.prefix+"g_defer")
		f.doCall(site.instr, &site.instr.Call, nil)
		after := f.st
		f.curGuard = saveG
		if flag.IsTrue() {
			continue
		}
		merged := NewState()
		keys := map[string]*Sort{}
		for k, s := range before.sorts {
			keys[k] = s
		}
		for k, s := range after.sorts {
			keys[k] = s
		}
		for _, k := range sortedKeys(keys) {
			merged.Set(k, keys[k], f.E.name(Ite(flag, after.Get(k, keys[k]), before.Get(k, keys[k])), f.prefix+"m$"+k))
		}
		f.st = merged
	}
}

func (f *Frame) call(in *ssa.Call) {
	if b, ok := in.Call.Value.(*ssa.Builtin); ok {
		f.builtin(in, b)
		return
	}
	f.doCall(in, &in.Call, in)
}

// doCall handles call, defer (result == nil).
func (f *Frame) doCall(instr ssa.Instruction, c *ssa.CallCommon, result *ssa.Call) {
	setResult := func(v *Val) {
		if result != nil {
			if v == nil {
				v = f.zeroValOrEmpty(result.Type())
			}
			f.vals[result] = v
		}
	}
	if b, ok := c.Value.(*ssa.Builtin); ok {
		// deferred builtin (close, delete, ...): rare
		switch b.Name() {
		case "close":
			ch := f.val(c.Args[0])
			cl := f.st.Get("closed", ArrayS(IntS, BoolS))
			f.st = f.st.Clone()
			f.st.Set("closed", ArrayS(IntS, BoolS), f.E.name(Store(cl, ch.X, True), f.prefix+"closed"))
			return
		}
		f.E.fail("deferred builtin %s", b.Name())
	}
	var args []*Val
	for _, a := range c.Args {
		args = append(args, f.val(a))
	}
	if c.IsInvoke() {
		recv := f.val(c.Value)
		f.invoke(instr, c, recv, args, setResult)
		return
	}
	callee := c.StaticCallee()
	if callee == nil {
		// call through a package-level function variable with its own contract
		if u, ok := c.Value.(*ssa.UnOp); ok {
			if g, ok := u.X.(*ssa.Global); ok {
				key := pkgQualifier(g.Pkg.Pkg) + "." + g.Name()
				if fc := f.E.P.Cs.Funcs[key]; fc != nil {
					f.contractCallSig(instr, key, c.Signature(), fc, args, false, setResult)
					return
				}
			}
		}
		fv := f.val(c.Value)
		if fv.K == VFunc && fv.Fn != nil {
			callee = fv.Fn
			if len(fv.Bind) > 0 || len(callee.FreeVars) > 0 {
				f.inlineCall(instr, callee, args, fv.Bind, setResult)
				return
			}
		} else {
			f.funcValueCall(instr, c, fv, args, setResult)
			return
		}
	}
	if mc, ok := c.Value.(*ssa.MakeClosure); ok {
		var binds []*Val
		for _, b := range mc.Bindings {
			binds = append(binds, f.val(b))
		}
		f.inlineCall(instr, callee, args, binds, setResult)
		return
	}
	f.staticCall(instr, callee, args, setResult)
}

func (f *Frame) zeroValOrEmpty(t types.Type) *Val {
	if tup, ok := t.(*types.Tuple); ok && tup.Len() == 0 {
		return &Val{K: VTuple, T: t}
	}
	return f.zeroVal(t)
}

func fullName(fn *ssa.Function) string {
	return fn.String()
}

func (f *Frame) staticCall(instr ssa.Instruction, callee *ssa.Function, args []*Val, setResult func(*Val)) {
	name := fullName(callee)
	if h, ok := specialCalls[name]; ok {
		h(f, instr, callee, args, setResult)
		return
	}
	key := funcKey(callee)
	if fc := f.E.P.Cs.Funcs[key]; fc != nil && !fc.Inline {
		f.contractCall(instr, callee, fc, args, setResult)
		return
	}
	if fc := f.E.P.Cs.Funcs[key]; fc != nil && fc.Inline && len(callee.Blocks) > 0 {
		f.inlineCall(instr, callee, args, nil, setResult)
		return
	}
	if isRepoFunc(callee) && len(callee.Blocks) > 0 && f.canInline(callee) {
		f.inlineCall(instr, callee, args, nil, setResult)
		return
	}
	// trusted defaults by package / name prefix
	if eff, ok := f.E.P.Spec.defaultEffect(key, callee); ok {
		f.E.Trusted[eff.note] = true
		f.defaultCall(instr, callee.Signature, eff, args, setResult)
		return
	}
	if isRepoFunc(callee) && len(callee.Blocks) > 0 {
		f.summaryCall(instr, callee, args, setResult)
		return
	}
	f.E.fail("callee %s needs a contract (or a trusted default)", key)
}

// summaryCall: a repo callee without contract that cannot be inlined is
// abstracted by its inferred effect: every heap key its body (transitively)
// may write is havocked, the result is unconstrained.
func (f *Frame) summaryCall(instr ssa.Instruction, callee *ssa.Function, args []*Val, setResult func(*Val)) {
	ms := f.E.modsetOf(callee)
	if _, unknown := ms["*"]; unknown {
		f.E.fail("callee %s has unknown effects (%s); it needs a contract", funcKey(callee), strings.Join(sortedKeys(f.E.unknownWhy), "; "))
	}
	f.E.Assumes["effect summary of "+funcKey(callee)+" inferred from its SSA (writes only the heap keys its body and callees store to; result unconstrained)"] = true
	f.havocSummary(ms, f.E.whoOf(callee), args)
	for _, wi := range f.E.ifaceWriteParams(callee) {
		if wi < len(args) {
			f.havocPointee(args[wi], callee.Params[wi].Type())
		}
	}
	r := f.freshResult(callee.Signature, callName(instr)+".r")
	if r != nil {
		f.assumeAllocated(r)
	}
	setResult(r)
}

// ifaceWriteParams: indexes (in the SSA parameter list, receiver first) of the interface-typed
// parameters of a repository function through which the function writes: the parameter is
// handed, as it is, to a write position of a trusted effect (json.Unmarshal(data, dest)) or to
// such a parameter of another repository function.
var ifaceWriteMemo sync.Map

func (e *Enc) ifaceWriteParams(fn *ssa.Function) []int {
	if v, ok := ifaceWriteMemo.Load(fn); ok {
		return v.([]int)
	}
	ifaceWriteMemo.Store(fn, []int(nil)) // recursion guard
	var out []int
	for pi, prm := range fn.Params {
		if _, isIface := prm.Type().Underlying().(*types.Interface); !isIface {
			continue
		}
		found := false
		for _, ref := range *prm.Referrers() {
			c := callCommonOf(ref)
			if c == nil || c.IsInvoke() {
				continue
			}
			callee := c.StaticCallee()
			if callee == nil {
				continue
			}
			for ai, a := range c.Args {
				if a != ssa.Value(prm) {
					continue
				}
				if isRepoFunc(callee) && len(callee.Blocks) > 0 {
					for _, wi := range e.ifaceWriteParams(callee) {
						if wi == ai {
							found = true
						}
					}
				} else if eff, ok := e.P.Spec.defaultEffect(funcKey(callee), callee); ok {
					for _, wi := range eff.writes {
						if wi == ai {
							found = true
						}
					}
				}
			}
		}
		if found {
			out = append(out, pi)
		}
	}
	ifaceWriteMemo.Store(fn, out)
	return out
}

// boxedPointeeKeys: the heap keys written by a callee that writes through the pointer or slice boxed
// into the interface value a (a direct conversion at the call site)
func (e *Enc) boxedPointeeKeys(a ssa.Value, m map[string]*Sort) {
	at := a.Type()
	av := a
	if mi, ok := a.(*ssa.MakeInterface); ok {
		at = mi.X.Type()
		av = mi.X
	}
	if sl, ok := at.Underlying().(*types.Slice); ok {
		e.addLeafKeys(m, "M$"+typeKey(sl.Elem()), sl.Elem(), AElem)
		return
	}
	if pt, ok := av.Type().Underlying().(*types.Pointer); ok {
		if p, k, ok := e.staticAddrKey(av); ok {
			e.addLeafKeys(m, p, pt.Elem(), k)
		} else if isStructType(pt.Elem()) {
			e.addLeafKeys(m, "F$"+typeKey(pt.Elem()), pt.Elem(), AObj)
		}
	}
}

func (f *Frame) canInline(callee *ssa.Function) bool {
	for _, g := range f.E.inlining {
		if g == callee {
			return false
		}
	}
	if len(f.E.inlining) > 2 {
		return false
	}
	n := 0
	for _, b := range callee.Blocks {
		n += len(b.Instrs)
		for _, s := range b.Succs {
			if s.Dominates(b) {
				return false // has a loop
			}
		}
	}
	return n <= 60
}

func (f *Frame) inlineCall(instr ssa.Instruction, callee *ssa.Function, args []*Val, binds []*Val, setResult func(*Val)) {
	e := f.E
	for _, g := range e.inlining {
		if g == callee {
			e.fail("recursive call to %s cannot be inlined; it needs a contract", callee)
		}
	}
	if len(callee.Blocks) == 0 {
		e.fail("cannot inline %s: no body", callee)
	}
	e.inlining = append(e.inlining, callee)
	defer func() { e.inlining = e.inlining[:len(e.inlining)-1] }()
	e.nfresh++
	sub := &Frame{E: e, Fn: callee, prefix: fmt.Sprintf("%s%s~%d.", f.prefix, callee.Name(), e.nfresh), vals: map[ssa.Value]*Val{}, params: map[string]*Val{}, freeVars: binds, nopanic: f.nopanic, depth: f.depth + 1}
	if fc := e.P.Cs.Funcs[funcKey(callee)]; fc != nil {
		sub.C = fc // inline with loop invariants available
	} else if callee.Parent() != nil && f.C != nil {
		// closures share the enclosing function's contract for property tags
		sub.C = &FuncContract{Key: funcKey(callee), Props: f.C.Props, LoopInv: map[int][]*Clause{}, LoopDec: map[int][]*Clause{}, LoopMod: map[int][]*Clause{}, Opts: f.C.Opts}
	}
	for i, p := range callee.Params {
		if i < len(args) {
			sub.vals[p] = args[i]
			sub.params[p.Name()] = args[i]
		}
	}
	sub.encodeBody(f.curGuard, f.st)
	// merge exits
	if len(sub.exits) == 0 {
		// never returns (panics / exits): nothing continues
		f.assume(False, "callee never returns")
		setResult(f.freshResult(callee.Signature, "r"))
		return
	}
	var gs []*Term
	for _, x := range sub.exits {
		gs = append(gs, x.guard)
	}
	// the callee returned: one of the exit guards holds
	f.assume(Or(gs...), "inlined callee returned")
	st := NewState()
	keys := map[string]*Sort{}
	for _, x := range sub.exits {
		for k, s := range x.state.sorts {
			if strings.HasPrefix(k, "L$"+sub.prefix) || strings.HasPrefix(k, "DEFER$"+sub.prefix) {
				continue
			}
			keys[k] = s
		}
	}
	last := sub.exits[len(sub.exits)-1]
	for _, k := range sortedKeys(keys) {
		s := keys[k]
		cur := last.state.Get(k, s)
		for i := len(sub.exits) - 2; i >= 0; i-- {
			cur = Ite(sub.exits[i].guard, sub.exits[i].state.Get(k, s), cur)
		}
		st.Set(k, s, e.name(cur, f.prefix+"m$"+k))
	}
	f.st = st
	nres := callee.Signature.Results().Len()
	if nres == 0 {
		setResult(nil)
		return
	}
	var res []*Val
	for r := 0; r < nres; r++ {
		cur := last.results[r]
		for i := len(sub.exits) - 2; i >= 0; i-- {
			cur = f.iteVal(sub.exits[i].guard, sub.exits[i].results[r], cur)
		}
		res = append(res, f.nameVal(cur, callee.Name()+".r"))
	}
	if nres == 1 {
		setResult(res[0])
	} else {
		setResult(&Val{K: VTuple, T: callee.Signature.Results(), Fields: res})
	}
}

func (f *Frame) freshResult(sig *types.Signature, hint string) *Val {
	switch sig.Results().Len() {
	case 0:
		return nil
	case 1:
		return f.freshVal(sig.Results().At(0).Type(), hint)
	}
	return f.freshVal(sig.Results(), hint)
}

type effect struct {
	pure   bool
	note   string
	havoc  []string // keys patterns to havoc
	writes []int    // argument indexes whose pointee is havocked
}

func (f *Frame) defaultCall(instr ssa.Instruction, sig *types.Signature, eff effect, args []*Val, setResult func(*Val)) {
	cc := callCommonOf(instr)
	for _, wi := range eff.writes {
		if wi < len(args) {
			if cc != nil && wi < len(cc.Args) {
				if mi, ok := cc.Args[wi].(*ssa.MakeInterface); ok {
					// a slice boxed into interface{} (sort.Slice): its elements are written
					if _, isSlice := mi.X.Type().Underlying().(*types.Slice); isSlice {
						f.havocElems(f.val(mi.X))
						continue
					}
					// a pointer boxed into interface{} (json.Unmarshal(data, &x)): its pointee is written
					if _, isPtr := mi.X.Type().Underlying().(*types.Pointer); isPtr {
						f.havocPointee(f.val(mi.X), mi.X.Type())
						continue
					}
				}
			}
			if args[wi].K == VSlice {
				f.havocElems(args[wi])
				continue
			}
			f.havocPointee(args[wi], sig.Params().At(wi).Type())
		}
	}
	r := f.freshResult(sig, callName(instr)+".r")
	if r != nil {
		f.assumeAllocatedFresh(r)
	}
	setResult(r)
}

func (f *Frame) assumeAllocatedFresh(v *Val) { f.assumeAllocated(v) }

// havocElems: the elements of a slice are overwritten with unknown values
func (f *Frame) havocElems(v *Val) {
	if v.K != VSlice {
		return
	}
	key, ls := f.elemLeaves(v.T)
	f.st = f.st.Clone()
	for _, l := range ls {
		k := key + l.path
		s := ArrayS(IntS, ArrayS(IntS, l.sort))
		cur := f.st.Get(k, s)
		f.E.noteVars(cur)
		f.st.Set(k, s, f.E.name(Store(cur, v.Base, f.fresh("hv$"+k, ArrayS(IntS, l.sort))), f.prefix+"hv$"+k))
	}
}

func callName(instr ssa.Instruction) string {
	if v, ok := instr.(ssa.Value); ok {
		return v.Name()
	}
	return "d"
}

func (f *Frame) havocPointee(p *Val, pt types.Type) {
	if p.K == VAddr {
		f.st = f.st.Clone()
		nv := f.freshVal(p.Addr.T, "hv")
		f.store(p.Addr, nv, f.st)
		f.assumeWF(nv)
		f.assumeAllocated(nv)
		return
	}
	if p.K == VScalar {
		// a pointer to a heap object: every field of that object may have been written
		if ptr, ok := pt.Underlying().(*types.Pointer); ok && isStructType(ptr.Elem()) {
			m := map[string]*Sort{}
			f.E.addLeafKeys(m, "F$"+typeKey(ptr.Elem()), ptr.Elem(), AObj)
			f.st = f.st.Clone()
			for _, k := range sortedKeys(m) {
				s := m[k]
				if s.K != SArray {
					continue
				}
				cur := f.st.Get(k, s)
				f.E.noteVars(cur)
				f.st.Set(k, s, f.E.name(Store(cur, p.X, f.fresh("hv$"+k, s.Elem)), f.prefix+"hv$"+k))
			}
			return
		}
		f.E.Assumes["a call writes through a pointer of type "+pt.String()+" whose pointee is not modelled"] = true
		return
	}
	if p.K == VIface && p.Boxed != nil {
		if p.Boxed.K == VSlice {
			f.havocElems(p.Boxed)
		} else {
			f.havocPointee(p.Boxed, p.Boxed.T)
		}
		return
	}
	if p.K == VIface {
		f.E.Assumes["a call writes through a pointer boxed in an interface value that is not a direct conversion at the call site: not modelled"] = true
		return
	}
}

func (f *Frame) funcValueCall(instr ssa.Instruction, c *ssa.CallCommon, fv *Val, args []*Val, setResult func(*Val)) {
	tk := typeKey(c.Value.Type())
	if eff, ok := f.E.P.Spec.funcTypeEffect(tk); ok {
		f.E.Trusted[eff.note] = true
		f.defaultCall(instr, c.Signature(), eff, args, setResult)
		return
	}
	targets := f.E.P.funcValueTargets(c.Signature())
	if len(targets) == 0 {
		f.E.fail("call through function value of type %s: no repository function of that signature is used as a value; it needs a trusted effect (functype)", tk)
	}
	f.E.Assumes["closed world for function values: a call through a value of type "+tk+" reaches only repository functions of that signature that are used as values"] = true
	ms := map[string]*Sort{}
	wm := map[string]*who{}
	for _, t := range targets {
		if fc := f.E.P.Cs.Funcs[funcKey(t)]; fc != nil && fc.Pure {
			continue
		}
		tw := f.E.whoOf(t)
		for k, s := range f.E.modsetOf(t) {
			ms[k] = s
			w := wm[k]
			if w == nil {
				w = &who{params: map[int]bool{}}
				wm[k] = w
			}
			if x := tw[k]; x == nil || x.other || len(x.params) > 0 {
				w.other = true // parameters of the target are not known at this call
			} else if x.fresh {
				w.fresh = true
			}
		}
	}
	if _, unknown := ms["*"]; unknown {
		f.E.fail("call through function value of type %s has unknown effects (%s)", tk, strings.Join(sortedKeys(f.E.unknownWhy), "; "))
	}
	f.havocSummary(ms, wm, nil)
	r := f.freshResult(c.Signature(), callName(instr)+".r")
	if r != nil {
		f.assumeAllocated(r)
	}
	setResult(r)
}

func (f *Frame) invoke(instr ssa.Instruction, c *ssa.CallCommon, recv *Val, args []*Val, setResult func(*Val)) {
	it := c.Value.Type()
	key := ""
	if n, ok := it.(*types.Named); ok {
		key = pkgQualifier(n.Obj().Pkg()) + "." + n.Obj().Name() + "." + c.Method.Name()
		if n.Obj().Pkg() == nil {
			key = n.Obj().Name() + "." + c.Method.Name() // error.Error
		}
	} else {
		key = "interface." + c.Method.Name()
	}
	if fc := f.E.P.Cs.Funcs[key]; fc != nil {
		all := append([]*Val{recv}, args...)
		if !fc.Pure && len(fc.Modifies) == 0 {
			// no modifies clause on the interface contract: the effect is inferred
			// from every implementer in the repository
			ms := map[string]*Sort{}
			f.E.invokeModKeys(c, ms)
			if _, unknown := ms["*"]; unknown {
				f.E.fail("interface method %s has unknown effects and its contract has no modifies clause", key)
			}
			f.havocSummary(ms, nil, nil)
			f.skipModifies = true
		}
		f.contractCallSig(instr, key, c.Signature(), fc, all, true, setResult)
		f.skipModifies = false
		return
	}
	if eff, ok := f.E.P.Spec.defaultEffect(key, nil); ok {
		f.E.Trusted[eff.note] = true
		f.defaultCall(instr, c.Signature(), eff, args, setResult)
		return
	}
	// effect inferred from every implementer in the repository
	ms := map[string]*Sort{}
	f.E.invokeModKeys(c, ms)
	if _, unknown := ms["*"]; unknown {
		f.E.fail("interface method %s has unknown effects; it needs a contract (iface) or trusted default", key)
	}
	f.E.Assumes["effect summary of interface method "+key+" inferred from all its implementers in the repository (result unconstrained)"] = true
	f.havocSummary(ms, nil, nil)
	r := f.freshResult(c.Signature(), callName(instr)+".r")
	if r != nil {
		f.assumeAllocated(r)
	}
	setResult(r)
}

// ---------------------------------------------------------------- contract rule

func (f *Frame) contractCall(instr ssa.Instruction, callee *ssa.Function, fc *FuncContract, args []*Val, setResult func(*Val)) {
	f.contractCallSig(instr, funcKey(callee), callee.Signature, fc, args, callee.Signature.Recv() != nil, setResult)
}

func paramNames(sig *types.Signature, fc *FuncContract, hasRecv bool) []string {
	var names []string
	if fc != nil && len(fc.Params) > 0 {
		return fc.Params
	}
	if hasRecv {
		if r := sig.Recv(); r != nil && r.Name() != "" {
			names = append(names, r.Name())
		} else {
			names = append(names, "self")
		}
	}
	for i := 0; i < sig.Params().Len(); i++ {
		n := sig.Params().At(i).Name()
		if n == "" || n == "_" {
			n = fmt.Sprintf("a%d", i)
		}
		names = append(names, n)
	}
	return names
}

func paramTypes(sig *types.Signature, hasRecv bool) []types.Type {
	var ts []types.Type
	if hasRecv {
		if r := sig.Recv(); r != nil {
			ts = append(ts, r.Type())
		} else {
			ts = append(ts, nil)
		}
	}
	for i := 0; i < sig.Params().Len(); i++ {
		ts = append(ts, sig.Params().At(i).Type())
	}
	return ts
}

func (f *Frame) contractCallSig(instr ssa.Instruction, key string, sig *types.Signature, fc *FuncContract, args []*Val, hasRecv bool, setResult func(*Val)) {
	e := f.E
	if fc.Trusted {
		e.Trusted["contract of "+key+" (trusted, not verified here)"] = true
	} else if fc.IsIface {
		e.Trusted["interface contract of "+key+" (assumed of every implementer, not verified against them)"] = true
	} else {
		e.Assumes["contract of "+key+" (verified separately against its own body)"] = true
	}
	for _, u := range fc.Uses {
		e.Uses[u] = true
	}
	names := paramNames(sig, fc, hasRecv)
	vars := map[string]*Val{}
	for i, n := range names {
		if i < len(args) {
			vars[n] = args[i]
			vars[n+"0"] = args[i]
		}
	}
	pre := f.st
	env := &Env{F: f, State: pre, Old: pre, Vars: vars, Callee: fc}
	// Representation gap: a contract written in `mode bytes` states its clauses over
	// (array, offset, length) strings; at a call from a function verified with opaque
	// strings those clauses cannot be evaluated.  The call is then modelled by the
	// callee's frame and ghost effects only (the call IS the event); its preconditions
	// at this site are an assumption listed in the evidence, its postconditions are not used.
	modeGap := fc.Mode == "bytes" && !e.Mode.Bytes
	if modeGap {
		e.Assumes["preconditions of "+key+" at its call in "+funcKey(f.Fn)+" are not checked and its postconditions not used (contract in mode bytes, caller verified with opaque strings; only its frame and ghost events are applied)"] = true
	}
	for i, cl := range fc.Requires {
		if modeGap {
			break
		}
		t := f.evalBool(cl.E, env)
		desc := fmt.Sprintf("%s.%d", key, i+1)
		// a precondition belongs to the callee's property
		ps := fc.Props
		if len(cl.Props) > 0 {
			ps = cl.Props
		}
		if len(ps) == 0 {
			ps = f.props()
		}
		e.addObl("pre@call", desc, f.curGuard, t, f.where(instr.Pos()), ps)
		f.assume(t, "precondition established")
	}
	// frame: havoc what the callee may modify
	post := pre.Clone()
	if !fc.Pure && !f.skipModifies {
		f.applyModifies(fc, env, post, key)
	}
	f.st = post
	res := f.freshResult(sig, callName(instr)+".r")
	if res != nil {
		f.assumeAllocated(res)
	}
	env2 := &Env{F: f, State: post, Old: pre, Vars: vars, Callee: fc}
	if res != nil {
		env2.Result = res
	}
	f.applyEffects(fc, env2, post)
	for _, cl := range fc.Ensures {
		if modeGap {
			break
		}
		// a postcondition that names locals of the callee (address-taken variables)
		// cannot be stated at a call site; it is verified in the callee but not assumed here
		func() {
			defer func() {
				if r := recover(); r != nil {
					if ee, ok := r.(encError); ok && strings.Contains(ee.msg, "unknown identifier") {
						return
					}
					panic(r)
				}
			}()
			t := f.evalBool(cl.E, env2)
			f.assume(t, "postcondition of "+key)
		}()
	}
	if fc.Opts["deterministic"] != "" && res != nil {
		det := f.detApply(key, key, args)
		dl, rl := det.leaves(), res.leaves()
		for i := range dl {
			f.assume(Eq(rl[i], dl[i]), "deterministic abstraction of "+key)
		}
	}
	setResult(res)
}

// applyModifies havocs the locations named by the callee's modifies clauses.
// Without any modifies clause (and not pure) the inferred modset of the body is havocked.
func (f *Frame) applyModifies(fc *FuncContract, env *Env, post *State, key string) {
	if len(fc.Modifies) == 0 {
		fn := f.E.P.ByKey[key]
		if fn == nil || len(fn.Blocks) == 0 {
			if fc.Trusted {
				return // trusted external function with no modifies clause: no effect on modelled state
			}
			f.E.fail("contract for %s has no modifies clause and no body to infer one from", key)
		}
		ms := f.E.modsetOf(fn)
		if _, unknown := ms["*"]; unknown {
			f.E.fail("contract for %s has no modifies clause and its body has unknown effects (function-value calls); add a modifies clause", key)
		}
		save := f.st
		f.st = post
		var args []*Val
		for _, n := range paramNames(fn.Signature, fc, fn.Signature.Recv() != nil) {
			args = append(args, env.Vars[n])
		}
		f.havocSummary(ms, f.E.whoOf(fn), args)
		for k, t := range f.st.m {
			post.Set(k, f.st.sorts[k], t)
		}
		f.st = save
		return
	}
	for _, cl := range fc.Modifies {
		f.havocLoc(cl.E, env, post)
	}
}

// havocLoc: x.f (one object's field), all(T.f) whole field, elems(s) backing array, mapof(m), ghost(name), *p (pointee)
func (f *Frame) havocLoc(e *CExpr, env *Env, post *State) {
	switch e.K {
	case "call":
		if e.A.K == "id" {
			switch e.A.Name {
			case "ghost", "key":
				name := e.Args[0].Name
				if e.Args[0].K == "str" {
					name = e.Args[0].Str
				}
				s, ok := f.E.P.Spec.ghostSort(name)
				if name == allocKey {
					s, ok = allocSort, true
				}
				if !ok {
					if os, ok2 := post.sorts[name]; ok2 {
						s = os
					} else {
						f.E.fail("unknown ghost/state key %s in modifies", name)
					}
				}
				if name == allocKey {
					// key(ALLOC): the callee allocates; allocation only grows
					cur := post.Get(allocKey, allocSort)
					f.E.noteVars(cur)
					nv := f.fresh("hv$"+name, allocSort)
					f.assume(Ge(nv, cur), "allocated objects stay allocated")
					post.Set(name, allocSort, nv)
					return
				}
				post.Set(name, s, f.fresh("hv$"+name, s))
				return
			case "all":
				// all(T.f): every object's field f (and deeper leaves)
				sel := e.Args[0]
				if sel.K != "sel" || sel.A.K != "sel" && sel.A.K != "id" {
					f.E.fail("all(pkg.Type.field) expected")
				}
				tname := sel.A.String()
				n := f.E.P.Named[tname]
				if n == nil {
					f.E.fail("unknown type %s in modifies", tname)
				}
				pre := "F$" + typeKey(n) + "$" + sel.Name
				f.havocKeysWithPrefix(n, sel.Name, pre, post)
				return
			case "held":
				mu := f.evalC(e.Args[0], env)
				if mu.K != VAddr {
					f.E.fail("held() in modifies needs a mutex field")
				}
				key := "held$" + mu.Addr.Key + mu.Addr.Path
				hs := ArrayS(IntS, BoolS)
				cur := post.Get(key, hs)
				f.E.noteVars(cur)
				post.Set(key, hs, f.E.name(Store(cur, mu.Addr.Obj, f.fresh("hv$held", BoolS)), f.prefix+"hv$"+key))
				return
			case "guarded":
				mu := f.evalC(e.Args[0], env)
				if mu.K != VAddr {
					f.E.fail("guarded() in modifies needs a mutex field")
				}
				n := f.E.P.Named[strings.TrimPrefix(mu.Addr.Key, "F$")]
				if n == nil {
					f.E.fail("guarded(): unknown owner type %s", mu.Addr.Key)
				}
				m := map[string]*Sort{}
				f.E.guardedKeys(n, strings.TrimPrefix(mu.Addr.Path, "$"), m)
				for _, k := range sortedKeys(m) {
					srt := m[k]
					cur := post.Get(k, srt)
					f.E.noteVars(cur)
					if strings.HasPrefix(k, "F$"+typeKey(n)+"$") {
						post.Set(k, srt, f.E.name(Store(cur, mu.Addr.Obj, f.fresh("hv$"+k, srt.Elem)), f.prefix+"hv$"+k))
					} else {
						post.Set(k, srt, f.fresh("hv$"+k, srt))
					}
				}
				return
			case "elems":
				v := f.evalC(e.Args[0], env)
				if v.K != VSlice {
					f.E.fail("elems() of non-slice")
				}
				key, ls := f.elemLeaves(v.T)
				for _, l := range ls {
					k := key + l.path
					s := ArrayS(IntS, ArrayS(IntS, l.sort))
					cur := post.Get(k, s)
					post.Set(k, s, f.E.name(Store(cur, v.Base, f.fresh("hv$"+k, ArrayS(IntS, l.sort))), f.prefix+"hv$"+k))
				}
				return
			case "mapof":
				v := f.evalC(e.Args[0], env)
				f.assumeAllocated(v)
				mk := f.mapInfo(v.T)
				d := post.Get(mk.dom, mk.domS)
				post.Set(mk.dom, mk.domS, f.E.name(Store(d, v.X, f.fresh("hv$dom", ArrayS(mk.ksort, BoolS))), f.prefix+"hv$"+mk.dom))
				l := post.Get(mk.length, ArrayS(IntS, IntS))
				nl := f.fresh("hv$len", IntS)
				f.assume(Ge(nl, IntLit(0)), "map length")
				post.Set(mk.length, ArrayS(IntS, IntS), f.E.name(Store(l, v.X, nl), f.prefix+"hv$"+mk.length))
				for _, lf := range mk.vleaves {
					k := mk.vkey + lf.path
					s := ArrayS(IntS, ArrayS(mk.ksort, lf.sort))
					a := post.Get(k, s)
					post.Set(k, s, f.E.name(Store(a, v.X, f.fresh("hv$mv", ArrayS(mk.ksort, lf.sort))), f.prefix+"hv$"+k))
				}
				return
			}
		}
	case "sel":
		// x.f : field f of the object x
		obj := f.evalC(e.A, env)
		a := f.fieldAddrByName(obj, e.Name)
		nv := f.freshVal(a.T, "hv$"+e.Name)
		f.storeInto(a, nv, post)
		return
	}
	f.E.fail("unsupported modifies location %s", e)
}

func (f *Frame) havocKeysWithPrefix(n *types.Named, field, pre string, post *State) {
	st, ok := n.Underlying().(*types.Struct)
	if !ok {
		f.E.fail("%s is not a struct", n)
	}
	for i := 0; i < st.NumFields(); i++ {
		if st.Field(i).Name() == field {
			for _, l := range leavesOf(st.Field(i).Type(), f.E.Mode) {
				k := pre + l.path
				s := ArrayS(IntS, l.sort)
				post.Set(k, s, f.fresh("hv$"+k, s))
			}
			return
		}
	}
	f.E.fail("no field %s in %s", field, n)
}

func (f *Frame) storeInto(a *Addr, v *Val, st *State) {
	f.store(a, v, st)
}

// ---------------------------------------------------------------- modsets

// modsetOf: heap keys a function may write (transitively), in the current mode.
// Computed as a fixpoint so that recursive call cycles are handled soundly.
func (e *Enc) modsetOf(fn *ssa.Function) map[string]*Sort {
	if m, ok := e.modsetMemo[fn]; ok && e.modsetDone[fn] {
		return m
	}
	if e.modsetDone == nil {
		e.modsetDone = map[*ssa.Function]bool{}
	}
	var visit func(fn *ssa.Function)
	var touched []*ssa.Function
	visit = func(fn *ssa.Function) {
		if _, ok := e.modsetMemo[fn]; ok {
			return
		}
		e.modsetMemo[fn] = map[string]*Sort{}
		touched = append(touched, fn)
		e.modsetVisit = visit
		e.fillModset(fn)
	}
	visit(fn)
	for changed := true; changed; {
		changed = false
		for _, g := range touched {
			before := len(e.modsetMemo[g]) + whoSize(e.whoMemo[g])
			e.fillModset(g)
			if len(e.modsetMemo[g])+whoSize(e.whoMemo[g]) != before {
				changed = true
			}
		}
	}
	for _, g := range touched {
		e.modsetDone[g] = true
	}
	return e.modsetMemo[fn]
}

func (e *Enc) fillModset(fn *ssa.Function) {
	m := e.modsetMemo[fn]
	if e.whoMemo == nil {
		e.whoMemo = map[*ssa.Function]map[string]*who{}
	}
	wm := e.whoMemo[fn]
	if wm == nil {
		wm = map[string]*who{}
		e.whoMemo[fn] = wm
	}
	for _, b := range fn.Blocks {
		for _, in := range b.Instrs {
			tmp := map[string]*Sort{}
			e.instrModKeys(in, tmp, false)
			if len(tmp) == 0 {
				continue
			}
			for k, srt := range tmp {
				m[k] = srt
				w := wm[k]
				if w == nil {
					w = &who{params: map[int]bool{}}
					wm[k] = w
				}
				e.classifyWrite(fn, in, k, w)
			}
		}
	}
}

// who: which objects a function may write for a heap key
type who struct {
	other  bool         // arbitrary pre-existing objects
	fresh  bool         // objects allocated during the call
	params map[int]bool // the object passed as parameter i (receiver = 0)
}

func (w *who) size() int {
	n := len(w.params)
	if w.other {
		n += 1000
	}
	if w.fresh {
		n += 100
	}
	return n
}

// addrRoot: the object whose own field is addressed.  A chain through an
// embedded struct addresses an inner object, not the root object.
func addrRoot(v ssa.Value) ssa.Value {
	if fa, ok := v.(*ssa.FieldAddr); ok {
		if _, nested := fa.X.(*ssa.FieldAddr); nested {
			// inner object of an embedded struct: fresh if the outermost object is a fresh allocation
			root := ssa.Value(fa)
			for {
				f2, ok := root.(*ssa.FieldAddr)
				if !ok {
					break
				}
				root = f2.X
			}
			if _, isAlloc := root.(*ssa.Alloc); isAlloc {
				return root
			}
			return v // inner object of a parameter or unknown object
		}
		return fa.X
	}
	return v
}

func paramIndex(fn *ssa.Function, v ssa.Value) int {
	for i, p := range fn.Params {
		if p == v {
			return i
		}
	}
	return -1
}

func isStructPtr(t types.Type) bool {
	pt, ok := t.Underlying().(*types.Pointer)
	if !ok {
		return false
	}
	_, ok = pt.Elem().Underlying().(*types.Struct)
	return ok
}

// classify the objects written for key k by instruction in
func (e *Enc) classifyWrite(fn *ssa.Function, in ssa.Instruction, k string, w *who) {
	if !strings.HasPrefix(k, "F$") && !strings.HasPrefix(k, "C$") {
		w.other = true
		return
	}
	classOf := func(root ssa.Value) (cls string, idx int) {
		if a, ok := root.(*ssa.Alloc); ok {
			if _, isStruct := a.Type().(*types.Pointer).Elem().Underlying().(*types.Struct); isStruct || a.Heap {
				return "fresh", 0
			}
		}
		if i := paramIndex(fn, root); i >= 0 && isStructPtr(root.Type()) {
			return "param", i
		}
		return "other", 0
	}
	switch x := in.(type) {
	case *ssa.Store:
		cls, i := classOf(addrRoot(x.Addr))
		switch cls {
		case "fresh":
			w.fresh = true
		case "param":
			w.params[i] = true
		default:
			w.other = true
		}
	case *ssa.Alloc:
		w.fresh = true
	case *ssa.Call, *ssa.Defer:
		c := callCommonOf(in)
		// argument i of the callee's parameter list (receiver first)
		argOf := func(pi int) ssa.Value {
			if c.IsInvoke() {
				if pi == 0 {
					return c.Value
				}
				pi--
			}
			if pi < len(c.Args) {
				return c.Args[pi]
			}
			return nil
		}
		translate := func(cw *who) {
			if cw == nil {
				return
			}
			if cw.other {
				w.other = true
			}
			if cw.fresh {
				w.fresh = true
			}
			for pi := range cw.params {
				a := argOf(pi)
				if a == nil {
					w.other = true
					continue
				}
				if mi, ok := a.(*ssa.MakeInterface); ok {
					a = mi.X
				}
				cls, i := classOf(addrRoot(a))
				if _, direct := a.(*ssa.FieldAddr); direct {
					cls = "other" // pointer to an embedded struct: not the object itself
				}
				switch cls {
				case "fresh":
					w.fresh = true
				case "param":
					w.params[i] = true
				default:
					w.other = true
				}
			}
		}
		if c.IsInvoke() {
			iface, ok := c.Value.Type().Underlying().(*types.Interface)
			if !ok {
				w.other = true
				return
			}
			_ = iface
			impls, found := e.P.implementers(c)
			for _, fn2 := range impls {
				if !isRepoFunc(fn2) {
					continue
				}
				if _, has := e.modsetMemo[fn2][k]; has {
					translate(e.whoMemo[fn2][k])
				}
			}
			if !found {
				w.other = true
			}
			return
		}
		callee := c.StaticCallee()
		if callee == nil || !isRepoFunc(callee) || len(callee.Blocks) == 0 {
			w.other = true
			return
		}
		if _, special := specialModKeys[fullName(callee)]; special {
			w.other = true
			return
		}
		if fc := e.P.Cs.Funcs[funcKey(callee)]; fc != nil && !fc.Inline {
			if len(fc.Modifies) > 0 {
				w.other = true
				return
			}
			// a contract with ghost effects but no modifies clause: the heap effect is still the
			// one inferred from the callee's body; only the ghost keys themselves are "other"
			for _, cl := range fc.Effects {
				if name, _ := splitWord(cl.Text); name == k {
					w.other = true
					return
				}
			}
		}
		translate(e.whoMemo[callee][k])
	default:
		w.other = true
	}
}

func (e *Enc) whoOf(fn *ssa.Function) map[string]*who {
	e.modsetOf(fn)
	return e.whoMemo[fn]
}

// calleeModset: the (possibly still growing) modset of a callee during the fixpoint
func (e *Enc) calleeModset(fn *ssa.Function) map[string]*Sort {
	if m, ok := e.modsetMemo[fn]; ok {
		return m
	}
	if e.modsetVisit != nil {
		e.modsetVisit(fn)
		return e.modsetMemo[fn]
	}
	return e.modsetOf(fn)
}

func (e *Enc) addLeafKeys(m map[string]*Sort, prefix string, t types.Type, kind int) {
	defer func() {
		if r := recover(); r != nil {
			// unsupported type inside a modset: havoc nothing for it, but record
			e.Assumes["writes to values of unsupported type "+t.String()+" are not modelled"] = true
		}
	}()
	if kind == AObj && innerStruct(t) && strings.HasPrefix(prefix, "F$") {
		// a whole struct value stored at an object address: its fields, inner objects for embedded structs
		st := t.Underlying().(*types.Struct)
		for i := 0; i < st.NumFields(); i++ {
			ft := st.Field(i).Type()
			if innerStruct(ft) {
				e.addLeafKeys(m, "F$"+typeKey(ft), ft, AObj)
			} else {
				e.addLeafKeys(m, "F$"+typeKey(t)+"$"+st.Field(i).Name(), ft, AObj)
			}
		}
		return
	}
	for _, l := range leavesOf(t, e.Mode) {
		switch kind {
		case AObj:
			m[prefix+l.path] = ArrayS(IntS, l.sort)
		case AElem:
			m[prefix+l.path] = ArrayS(IntS, ArrayS(IntS, l.sort))
		default:
			m[prefix+l.path] = l.sort
		}
	}
}

// static description of the address an SSA pointer value denotes
func (e *Enc) staticAddrKey(v ssa.Value) (prefix string, kind int, ok bool) {
	switch a := v.(type) {
	case *ssa.FieldAddr:
		st := a.X.Type().Underlying().(*types.Pointer).Elem()
		fld := st.Underlying().(*types.Struct).Field(a.Field)
		// elements of slices of structs and opaque parents keep flattened paths
		if p, k, ok := e.staticAddrKey(a.X); ok && (k == AElem || !strings.HasPrefix(p, "F$") || isOpaqueStruct(st)) {
			return p + "$" + fld.Name(), k, true
		}
		return "F$" + typeKey(st) + "$" + fld.Name(), AObj, true
	case *ssa.IndexAddr:
		switch u := a.X.Type().Underlying().(type) {
		case *types.Slice:
			return "M$" + typeKey(u.Elem()), AElem, true
		case *types.Pointer:
			if at, ok := u.Elem().Underlying().(*types.Array); ok {
				return "M$" + typeKey(at.Elem()), AElem, true
			}
		}
	case *ssa.Alloc:
		t := a.Type().(*types.Pointer).Elem()
		switch t.Underlying().(type) {
		case *types.Struct:
			return "F$" + typeKey(t), AObj, true
		case *types.Array:
			return "", 0, false
		}
		if a.Heap {
			return "C$" + typeKey(t), AObj, true
		}
		return "", ALocal, false // local cells are handled per frame
	case *ssa.Global:
		t := a.Type().(*types.Pointer).Elem()
		return "G$" + pkgQualifier(a.Pkg.Pkg) + "." + a.Name(), AObj, true
		_ = t
	case *ssa.Phi, *ssa.Parameter, *ssa.Call, *ssa.UnOp, *ssa.Extract, *ssa.FreeVar, *ssa.TypeAssert, *ssa.Lookup, *ssa.Field:
		if pt, ok := v.Type().Underlying().(*types.Pointer); ok {
			if _, isStruct := pt.Elem().Underlying().(*types.Struct); isStruct {
				return "F$" + typeKey(pt.Elem()), AObj, true
			}
			return "C$" + typeKey(pt.Elem()), AObj, true
		}
	}
	return "", 0, false
}

func (e *Enc) instrModKeys(in ssa.Instruction, m map[string]*Sort, includeLocal bool) {
	switch in := in.(type) {
	case *ssa.Store:
		if p, k, ok := e.staticAddrKey(in.Addr); ok {
			t := in.Addr.Type().Underlying().(*types.Pointer).Elem()
			if k == AObj && innerStruct(t) && strings.HasPrefix(p, "F$") {
				p = "F$" + typeKey(t)
			}
			e.addLeafKeys(m, p, t, k)
		}
	case *ssa.MapUpdate:
		e.addMapKeys(m, in.Map.Type())
	case *ssa.Alloc:
		m[allocKey] = allocSort
		t := in.Type().(*types.Pointer).Elem()
		switch u := t.Underlying().(type) {
		case *types.Struct:
			if !isOpaqueStruct(t) {
				e.addLeafKeys(m, "F$"+typeKey(t), t, AObj)
			}
		case *types.Array:
			e.addLeafKeys(m, "M$"+typeKey(u.Elem()), u.Elem(), AElem)
		default:
			if in.Heap {
				e.addLeafKeys(m, "C$"+typeKey(t), t, AObj)
			}
		}
	case *ssa.MakeSlice:
		m[allocKey] = allocSort
		et := in.Type().Underlying().(*types.Slice).Elem()
		e.addLeafKeys(m, "M$"+typeKey(et), et, AElem)
	case *ssa.MakeMap:
		m[allocKey] = allocSort
		e.addMapKeys(m, in.Type())
	case *ssa.MakeChan:
		m[allocKey] = allocSort
		m["closed"] = ArrayS(IntS, BoolS)
	case *ssa.Convert:
		if _, ok := in.Type().Underlying().(*types.Slice); ok {
			m[allocKey] = allocSort
			if e.Mode.Bytes {
				m["M$byte"] = ArrayS(IntS, ArrayS(IntS, IntS))
			}
		}
	case *ssa.Call:
		e.callModKeys(&in.Call, m)
	case *ssa.Defer:
		e.callModKeys(&in.Call, m)
	case *ssa.Go:
	}
}

func (e *Enc) addMapKeys(m map[string]*Sort, t types.Type) {
	mt := t.Underlying().(*types.Map)
	ks, _, ok := scalarSortOf(mt.Key(), e.Mode)
	if !ok {
		if _, isIface := mt.Key().Underlying().(*types.Interface); isIface {
			// interface keys are packed into Int by ikey (see mapInfo)
			ks, ok = IntS, true
		}
	}
	if !ok {
		return
	}
	tk := typeKey(t)
	m["MD$"+tk] = ArrayS(IntS, ArrayS(ks, BoolS))
	m["ML$"+tk] = ArrayS(IntS, IntS)
	func() {
		defer func() { recover() }()
		if st, ok := mt.Elem().Underlying().(*types.Struct); ok && st.NumFields() == 0 {
			return
		}
		for _, l := range leavesOf(mt.Elem(), e.Mode) {
			m["MV$"+tk+l.path] = ArrayS(IntS, ArrayS(ks, l.sort))
		}
	}()
}

func (e *Enc) callModKeys(c *ssa.CallCommon, m map[string]*Sort) {
	if b, ok := c.Value.(*ssa.Builtin); ok {
		switch b.Name() {
		case "append":
			m[allocKey] = allocSort
			if sl, ok := c.Args[0].Type().Underlying().(*types.Slice); ok {
				e.addLeafKeys(m, "M$"+typeKey(sl.Elem()), sl.Elem(), AElem)
			}
		case "copy":
			if sl, ok := c.Args[0].Type().Underlying().(*types.Slice); ok {
				e.addLeafKeys(m, "M$"+typeKey(sl.Elem()), sl.Elem(), AElem)
			}
		case "close":
			m["closed"] = ArrayS(IntS, BoolS)
		case "delete":
			e.addMapKeys(m, c.Args[0].Type())
		}
		return
	}
	if c.IsInvoke() {
		e.invokeModKeys(c, m)
		return
	}
	callee := c.StaticCallee()
	if callee == nil {
		if mc, ok := c.Value.(*ssa.MakeClosure); ok {
			callee = mc.Fn.(*ssa.Function)
		} else {
			// call through a function value
			if u, ok := c.Value.(*ssa.UnOp); ok {
				if g, ok := u.X.(*ssa.Global); ok {
					key := pkgQualifier(g.Pkg.Pkg) + "." + g.Name()
					if fc := e.P.Cs.Funcs[key]; fc != nil && (fc.Pure || fc.Trusted && len(fc.Modifies) == 0) {
						return
					}
				}
			}
			if _, ok := e.P.Spec.funcTypeEffect(typeKey(c.Value.Type())); ok {
				return
			}
			targets := e.P.funcValueTargets(c.Signature())
			if len(targets) == 0 {
				m["*"] = BoolS // unknown effects
				e.noteUnknown("call through function value of type " + typeKey(c.Value.Type()) + " with no repository target")
				return
			}
			e.Assumes["closed world for function values: a call through a value of type "+typeKey(c.Value.Type())+" reaches only repository functions of that signature that are used as values"] = true
			for _, t := range targets {
				k2 := funcKey(t)
				if fc := e.P.Cs.Funcs[k2]; fc != nil && fc.Pure {
					continue
				}
				for k, s := range e.calleeModset(t) {
					m[k] = s
				}
			}
			return
		}
	}
	name := fullName(callee)
	if ks, ok := specialModKeys[name]; ok {
		ks(e, c, m)
		return
	}
	key := funcKey(callee)
	if fc := e.P.Cs.Funcs[key]; fc != nil && !fc.Inline {
		e.effectKeys(fc, m)
		if fc.Pure {
			return
		}
		if len(fc.Modifies) > 0 {
			e.contractModKeys(fc, callee, m)
			return
		}
		if len(callee.Blocks) == 0 {
			return
		}
	}
	if len(callee.Blocks) == 0 {
		return
	}
	if !isRepoFunc(callee) {
		if eff, ok := e.P.Spec.defaultEffect(key, callee); ok && len(eff.writes) > 0 {
			// writes through pointer arguments: the pointee keys
			for _, wi := range eff.writes {
				if wi < len(c.Args) {
					at := c.Args[wi].Type()
					if mi, ok := c.Args[wi].(*ssa.MakeInterface); ok {
						at = mi.X.Type()
					}
					if sl, ok := at.Underlying().(*types.Slice); ok {
						e.addLeafKeys(m, "M$"+typeKey(sl.Elem()), sl.Elem(), AElem)
						continue
					}
					av := c.Args[wi]
					if mi, ok := av.(*ssa.MakeInterface); ok {
						av = mi.X // a pointer boxed into interface{} at the call site
					}
					if pt, ok := av.Type().Underlying().(*types.Pointer); ok {
						if p, k, ok := e.staticAddrKey(av); ok {
							e.addLeafKeys(m, p, pt.Elem(), k)
						} else if isStructType(pt.Elem()) {
							e.addLeafKeys(m, "F$"+typeKey(pt.Elem()), pt.Elem(), AObj)
						}
					}
				}
			}
		}
		return
	}
	for k, s := range e.calleeModset(callee) {
		m[k] = s
	}
	for _, wi := range e.ifaceWriteParams(callee) {
		if wi < len(c.Args) {
			e.boxedPointeeKeys(c.Args[wi], m)
		}
	}
}

// interface method call: union over all repo types implementing the interface
func (e *Enc) invokeModKeys(c *ssa.CallCommon, m map[string]*Sort) {
	it := c.Value.Type()
	key := ""
	if n, ok := it.(*types.Named); ok {
		if n.Obj().Pkg() != nil {
			key = pkgQualifier(n.Obj().Pkg()) + "." + n.Obj().Name() + "." + c.Method.Name()
		} else {
			key = n.Obj().Name() + "." + c.Method.Name()
		}
	}
	if fc := e.P.Cs.Funcs[key]; fc != nil {
		if fc.Pure || len(fc.Modifies) == 0 && fc.Trusted {
			return
		}
	}
	if _, ok := e.P.Spec.defaultEffect(key, nil); ok {
		return
	}
	if _, ok := it.Underlying().(*types.Interface); !ok {
		m["*"] = BoolS
		e.noteUnknown("invoke on non-interface " + it.String())
		return
	}
	impls, found := e.P.implementers(c)
	for _, fn := range impls {
		if !isRepoFunc(fn) {
			continue
		}
		k2 := funcKey(fn)
		if fc := e.P.Cs.Funcs[k2]; fc != nil && fc.Pure {
			continue
		}
		for k, s := range e.calleeModset(fn) {
			m[k] = s
		}
	}
	if !found {
		m["*"] = BoolS
		e.noteUnknown("interface method " + key + " (" + it.String() + "." + c.Method.Name() + ") has no implementer in the repository")
	}
}

func (e *Enc) noteUnknown(why string) {
	if e.unknownWhy == nil {
		e.unknownWhy = map[string]bool{}
	}
	e.unknownWhy[why] = true
}

// conservative key set of a callee's explicit modifies clauses
func (e *Enc) contractModKeys(fc *FuncContract, callee *ssa.Function, m map[string]*Sort) {
	e.effectKeys(fc, m)
	for _, cl := range fc.Modifies {
		ex := cl.E
		switch ex.K {
		case "call":
			if ex.A.K == "id" {
				switch ex.A.Name {
				case "ghost", "key":
					name := ex.Args[0].Name
					if ex.Args[0].K == "str" {
						name = ex.Args[0].Str
					}
					if s, ok := e.P.Spec.ghostSort(name); ok {
						m[name] = s
					}
					continue
				case "all":
					sel := ex.Args[0]
					if n := e.P.Named[sel.A.String()]; n != nil {
						e.addFieldKeys(m, n, sel.Name)
					}
					continue
				case "held", "guarded":
					sel := ex.Args[0]
					if sel.K == "sel" {
						if t := e.staticTypeOfCExpr(sel.A, callee); t != nil {
							if n := namedStructOf(t); n != nil {
								if ex.A.Name == "held" {
									m["held$F$"+typeKey(n)+"$"+sel.Name] = ArrayS(IntS, BoolS)
								} else {
									e.guardedKeys(n, sel.Name, m)
								}
								continue
							}
						}
					}
				}
			}
		case "sel":
			// x.f with x a parameter: find the struct type of x
			if t := e.staticTypeOfCExpr(ex.A, callee); t != nil {
				if n := namedStructOf(t); n != nil {
					e.addFieldKeys(m, n, ex.Name)
					continue
				}
			}
		}
		// fall back: whole inferred modset
		if len(callee.Blocks) > 0 {
			for k, s := range e.modsetOf(callee) {
				m[k] = s
			}
		}
	}
}

func namedStructOf(t types.Type) *types.Named {
	if p, ok := t.Underlying().(*types.Pointer); ok {
		t = p.Elem()
	}
	if n, ok := t.(*types.Named); ok {
		if _, isStruct := n.Underlying().(*types.Struct); isStruct {
			return n
		}
	}
	return nil
}

func (e *Enc) addFieldKeys(m map[string]*Sort, n *types.Named, field string) {
	st := n.Underlying().(*types.Struct)
	for i := 0; i < st.NumFields(); i++ {
		if st.Field(i).Name() == field {
			if ft := st.Field(i).Type(); innerStruct(ft) {
				e.addLeafKeys(m, "F$"+typeKey(ft), ft, AObj)
				continue
			}
			e.addLeafKeys(m, "F$"+typeKey(n)+"$"+field, st.Field(i).Type(), AObj)
			// slices: contents too
			if sl, ok := st.Field(i).Type().Underlying().(*types.Slice); ok {
				_ = sl
			}
		}
	}
}

func (e *Enc) staticTypeOfCExpr(ex *CExpr, fn *ssa.Function) types.Type {
	switch ex.K {
	case "id":
		for _, p := range fn.Params {
			if p.Name() == ex.Name {
				return p.Type()
			}
		}
	case "sel":
		t := e.staticTypeOfCExpr(ex.A, fn)
		if t == nil {
			return nil
		}
		if n := namedStructOf(t); n != nil {
			st := n.Underlying().(*types.Struct)
			for i := 0; i < st.NumFields(); i++ {
				if st.Field(i).Name() == ex.Name {
					return st.Field(i).Type()
				}
			}
		}
	}
	return nil
}

// loopModKeys: keys written inside a loop (including non-escaping locals and ghost state).
func (f *Frame) loopModKeys(li *loopInfo) map[string]*Sort {
	m := map[string]*Sort{}
	for _, b := range f.Fn.Blocks {
		if !li.blocks[b.Index] {
			continue
		}
		for _, in := range b.Instrs {
			f.E.instrModKeys(in, m, true)
			switch in := in.(type) {
			case *ssa.Store:
				f.localStoreKeys(in.Addr, m)
			case *ssa.Alloc:
				if !in.Heap {
					f.localStoreKeys(in, m)
				}
			case *ssa.Next:
				if rs := f.ranges[in.Iter]; rs != nil {
					if rs.kind == "map" {
						m[rs.visKey] = ArrayS(rs.ksort, BoolS)
						m[rs.visKey+"$n"] = IntS
					} else {
						m[rs.visKey] = IntS
					}
				}
			case *ssa.Defer:
				f.E.fail("defer inside a loop is outside the subset")
			}
		}
	}
	// monitors and ghost state written by callee effects
	if f.C != nil {
		for _, cl := range f.C.LoopMod[li.ordinal] {
			ex := cl.E
			if ex.K == "call" && ex.A.K == "id" && (ex.A.Name == "ghost" || ex.A.Name == "key") {
				name := ex.Args[0].Name
				if ex.Args[0].K == "str" {
					name = ex.Args[0].Str
				}
				if s, ok := f.E.P.Spec.ghostSort(name); ok {
					m[name] = s
				} else if s2, ok2 := f.st.sorts[name]; ok2 {
					m[name] = s2
				} else {
					f.E.fail("unknown ghost key %s", name)
				}
			}
		}
	}
	return m
}

// keys of a non-escaping local reached through FieldAddr chains
func (f *Frame) localStoreKeys(v ssa.Value, m map[string]*Sort) {
	path := ""
	cur := v
	for {
		switch a := cur.(type) {
		case *ssa.FieldAddr:
			st := a.X.Type().Underlying().(*types.Pointer).Elem().Underlying().(*types.Struct)
			path = "$" + st.Field(a.Field).Name() + path
			cur = a.X
			continue
		case *ssa.Alloc:
			if a.Heap {
				return
			}
			t := a.Type().(*types.Pointer).Elem()
			switch t.Underlying().(type) {
			case *types.Struct, *types.Array:
				return
			}
			name := a.Comment
			if name == "" {
				name = a.Name()
			}
			pre := "L$" + f.prefix + a.Name() + "." + name
			for _, l := range leavesOf(t, f.E.Mode) {
				if strings.HasPrefix(l.path, path) || path == "" {
					m[pre+l.path] = l.sort
				}
			}
			return
		}
		return
	}
}

var _ = token.NoPos

// ---------------------------------------------------------------- precise loop havoc
//
// A heap key written in a loop only through Stores whose object is a value
// defined outside the loop (or an object allocated inside the loop) changes
// only at those objects; the rest of the array is kept across the loop header.

type preciseKey struct {
	objs  []ssa.Value
	fresh bool
}

func (f *Frame) loopPreciseKeys(li *loopInfo) map[string]*preciseKey {
	res := map[string]*preciseKey{}
	bad := map[string]bool{}
	inLoop := func(v ssa.Value) bool {
		if in, ok := v.(ssa.Instruction); ok {
			if b := in.Block(); b != nil {
				return li.blocks[b.Index]
			}
		}
		return false
	}
	for _, b := range f.Fn.Blocks {
		if !li.blocks[b.Index] {
			continue
		}
		for _, in := range b.Instrs {
			tmp := map[string]*Sort{}
			f.E.instrModKeys(in, tmp, true)
			if len(tmp) == 0 {
				continue
			}
			switch x := in.(type) {
			case *ssa.Store:
				root := x.Addr
				for {
					if fa, ok := root.(*ssa.FieldAddr); ok {
						root = fa.X
						continue
					}
					break
				}
				var cls string
				if a, ok := root.(*ssa.Alloc); ok && inLoop(a) {
					if _, isStruct := a.Type().(*types.Pointer).Elem().Underlying().(*types.Struct); isStruct {
						cls = "fresh"
					}
				} else if !inLoop(root) {
					if pt, ok := root.Type().Underlying().(*types.Pointer); ok {
						if _, isStruct := pt.Elem().Underlying().(*types.Struct); isStruct {
							cls = "obj"
						}
					}
				}
				for k := range tmp {
					if !strings.HasPrefix(k, "F$") || cls == "" {
						bad[k] = true
						continue
					}
					pk := res[k]
					if pk == nil {
						pk = &preciseKey{}
						res[k] = pk
					}
					if cls == "fresh" {
						pk.fresh = true
					} else {
						dup := false
						for _, o := range pk.objs {
							if o == root {
								dup = true
							}
						}
						if !dup {
							pk.objs = append(pk.objs, root)
						}
					}
				}
			case *ssa.Alloc:
				for k := range tmp {
					if k == allocKey {
						continue
					}
					if strings.HasPrefix(k, "F$") {
						pk := res[k]
						if pk == nil {
							pk = &preciseKey{}
							res[k] = pk
						}
						pk.fresh = true
					} else {
						bad[k] = true
					}
				}
			default:
				for k := range tmp {
					if k != allocKey {
						bad[k] = true
					}
				}
			}
		}
	}
	for k := range bad {
		delete(res, k)
	}
	return res
}


// effect clauses: "effect <ghost> <expr>" — calling the function is the event
// that increments ghost[<expr>] (e.g. runs[metadata] for a job start).
func parseEffect(cl *Clause) (string, *CExpr, *CExpr, error) {
	name, rest := splitWord(cl.Text)
	var valText string
	if k := strings.Index(rest, ":="); k >= 0 {
		valText = strings.TrimSpace(rest[k+2:])
		rest = strings.TrimSpace(rest[:k])
	}
	ex, err := ParseCExpr(rest)
	if err != nil {
		return "", nil, nil, fmt.Errorf("%s: %v", cl.Where, err)
	}
	var val *CExpr
	if valText != "" {
		val, err = ParseCExpr(valText)
		if err != nil {
			return "", nil, nil, fmt.Errorf("%s: %v", cl.Where, err)
		}
	}
	return name, ex, val, nil
}

// applyEffects: "effect g idx" increments ghost g[idx]; "effect g idx := v"
// assigns it (v may mention result).  Effects are definitional: the call IS
// the event; they are applied at call sites and not checked against the body.
func (f *Frame) applyEffects(fc *FuncContract, env *Env, post *State) {
	for _, cl := range fc.Effects {
		name, ex, val, err := parseEffect(cl)
		if err != nil {
			f.E.fail("%v", err)
		}
		s, ok := f.E.P.Spec.ghostSort(name)
		if !ok || s.K != SArray {
			f.E.fail("effect on unknown ghost array %s", name)
		}
		idx := f.evalC(ex, env)
		cur := post.Get(name, s)
		f.E.noteVars(cur)
		var nv *Term
		if idx.K == VAddr && idx.Addr != nil && idx.Addr.Kind == AObj && idx.Addr.Path == "" {
			// the address of a heap cell / struct object: its reference indexes the ghost array
			idx = &Val{K: VScalar, T: idx.T, X: idx.Addr.Obj}
		}
		if idx.X == nil {
			// the event's index is not a reference or scalar here (a non-escaping local buffer):
			// the event is not recorded; the ghost array is havocked instead (sound: nothing is
			// assumed about it afterwards)
			post.Set(name, s, f.fresh("hv$"+name, s))
			continue
		}
		if val == nil {
			nv = Add(Select(cur, idx.X), IntLit(1))
		} else {
			vv := f.evalC(val, env)
			if vv.X == nil {
				post.Set(name, s, f.fresh("hv$"+name, s))
				continue
			}
			nv = vv.X
		}
		post.Set(name, s, f.E.name(Store(cur, idx.X, nv), f.prefix+"eff$"+name))
	}
}

// counterMonotone: a ghost array declared `counter` is only ever incremented, so a havoc of
// it (unverified callee, loop) keeps every entry at least as large as before.
func (f *Frame) counterMonotone(k string, srt *Sort, cur, nv *Term) {
	if !f.E.P.Spec.Counters[k] || srt.K != SArray {
		return
	}
	f.E.noteVars(cur)
	b := Bound{Name: fmt.Sprintf("c!mono%d", f.E.nextQ()), S: srt.Idx}
	v := Var(b.Name, srt.Idx)
	f.assume(Forall([]Bound{b}, Ge(Select(nv, v), Select(cur, v))), "event counter "+k+" only grows")
}

func (e *Enc) effectKeys(fc *FuncContract, m map[string]*Sort) {
	for _, cl := range fc.Effects {
		name, _ := splitWord(cl.Text)
		if s, ok := e.P.Spec.ghostSort(name); ok {
			m[name] = s
		}
	}
}


func whoSize(m map[string]*who) int {
	n := 0
	for _, w := range m {
		n += w.size()
	}
	return n
}

// havocSummary applies an inferred effect summary at a call site: keys written
// only at parameter objects / fresh objects keep every other pre-existing object.
func (f *Frame) havocSummary(ms map[string]*Sort, wm map[string]*who, args []*Val) {
	f.st = f.st.Clone()
	allocPre := f.st.Get(allocKey, allocSort)
	f.E.noteVars(allocPre)
	for _, k := range sortedKeys(ms) {
		srt := ms[k]
		w := wm[k]
		if k == allocKey {
			// allocation only grows
			nv := f.fresh("hv$"+k, allocSort)
			f.assume(Ge(nv, allocPre), "allocated objects stay allocated")
			f.st.Set(k, allocSort, nv)
			continue
		}
		if w == nil || w.other || srt.K != SArray || srt.Idx.K != SInt {
			cur := f.st.Get(k, srt)
			nv := f.fresh("hv$"+k, srt)
			f.st.Set(k, srt, nv)
			f.counterMonotone(k, srt, cur, nv)
			continue
		}
		var objs []*Term
		ok := true
		for pi := range w.params {
			if pi >= len(args) || args[pi].K != VScalar && args[pi].K != VIface {
				ok = false
				break
			}
			objs = append(objs, args[pi].X)
		}
		if !ok {
			f.st.Set(k, srt, f.fresh("hv$"+k, srt))
			continue
		}
		cur := f.st.Get(k, srt)
		f.E.noteVars(cur)
		if !w.fresh {
			nt := cur
			for _, o := range objs {
				nt = Store(nt, o, f.fresh("hv$"+k, srt.Elem))
			}
			f.st.Set(k, srt, f.E.name(nt, f.prefix+"hv$"+k))
			continue
		}
		nv := f.fresh("hv$"+k, srt)
		ob := Bound{Name: fmt.Sprintf("o!sf%d", f.E.nextQ()), S: IntS}
		ov := Var(ob.Name, IntS)
		conds := []*Term{allocatedIn(allocPre, ov)}
		for _, o := range objs {
			conds = append(conds, Neq(ov, o))
		}
		f.assume(Forall([]Bound{ob}, Implies(And(conds...), Eq(Select(nv, ov), Select(cur, ov)))), "callee writes this field only on its parameter objects and on objects it allocates")
		f.st.Set(k, srt, nv)
	}
}
