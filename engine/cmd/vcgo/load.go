package main

import (
	"bytes"
	"fmt"
	"go/ast"
	"go/printer"
	"go/token"
	"go/types"
	"os"
	"path/filepath"
	"sort"
	"strings"

	"golang.org/x/tools/go/packages"
	"golang.org/x/tools/go/ssa"
	"golang.org/x/tools/go/ssa/ssautil"
)

type Program struct {
	Fset   *token.FileSet
	Pkgs   []*packages.Package
	SSA    *ssa.Program
	ByKey  map[string]*ssa.Function // "core.Recv.Name" / "core.Func" / "unicode/utf8.DecodeRuneInString"
	Named  map[string]*types.Named  // "core.Fork"
	Cs     *Contracts
	Repo   string
	files  map[string]*ast.File
	Spec   *SpecLib
	TagOf  map[string]int
	Overlay map[string][]byte
	namedKeys []string
	Rules     map[string]*DFA
	fvTargets map[string][]*ssa.Function
	implCache map[string][]*ssa.Function
}

var repoPkgs = []string{"./martian/core", "./martian/syntax", "./martian/util", "./cmd/mrjob", "./cmd/mrp"}

func LoadProgram(repo string, overlay map[string][]byte) (*Program, error) {
	cfg := &packages.Config{Mode: packages.LoadAllSyntax, Dir: repo, Overlay: overlay,
		Env: append(os.Environ(), "GOFLAGS=-mod=mod", "GOPROXY=off", "GOSUMDB=off", "GOTOOLCHAIN=local")}
	pkgs, err := packages.Load(cfg, repoPkgs...)
	if err != nil {
		return nil, err
	}
	var errs []string
	packages.Visit(pkgs, nil, func(p *packages.Package) {
		if strings.HasPrefix(p.PkgPath, "github.com/martian-lang/martian") {
			for _, e := range p.Errors {
				errs = append(errs, e.Error())
			}
		}
	})
	if len(errs) > 0 {
		return nil, fmt.Errorf("load errors:\n%s", strings.Join(errs, "\n"))
	}
	prog, _ := ssautil.AllPackages(pkgs, ssa.InstantiateGenerics|ssa.GlobalDebug)
	prog.Build()
	p := &Program{Fset: pkgs[0].Fset, Pkgs: pkgs, SSA: prog, ByKey: map[string]*ssa.Function{}, Named: map[string]*types.Named{}, Repo: repo, files: map[string]*ast.File{}, Overlay: overlay}
	for fn := range ssautil.AllFunctions(prog) {
		if fn.Pkg == nil && fn.Parent() == nil && fn.Signature.Recv() == nil {
			continue
		}
		k := funcKey(fn)
		if k != "" {
			// wrappers synthesised by go/ssa (pointer-receiver wrappers, bound methods,
			// thunks) share the key of the declared function: the declared one wins
			if old, dup := p.ByKey[k]; !dup || (old.Synthetic != "" && fn.Synthetic == "") {
				p.ByKey[k] = fn
			}
		}
	}
	packages.Visit(pkgs, nil, func(pk *packages.Package) {
		if pk.Types == nil {
			return
		}
		q := pkgQualifier(pk.Types)
		sc := pk.Types.Scope()
		for _, name := range sc.Names() {
			if tn, ok := sc.Lookup(name).(*types.TypeName); ok {
				if n, ok := tn.Type().(*types.Named); ok {
					p.Named[q+"."+name] = n
				}
			}
		}
		if strings.HasPrefix(pk.PkgPath, "github.com/martian-lang/martian") {
			for i, f := range pk.Syntax {
				if i < len(pk.CompiledGoFiles) {
					p.files[pk.CompiledGoFiles[i]] = f
				}
			}
		}
	})
	return p, nil
}

// funcKey gives the contract key of a function.
func funcKey(fn *ssa.Function) string {
	if fn.Parent() != nil {
		// anonymous function: parent key + $n
		return funcKey(fn.Parent()) + "$" + strings.TrimPrefix(fn.Name(), fn.Parent().Name()+"$")
	}
	var pkg *types.Package
	if fn.Pkg != nil {
		pkg = fn.Pkg.Pkg
	} else if fn.Object() != nil {
		pkg = fn.Object().Pkg()
	}
	q := pkgQualifier(pkg)
	if recv := fn.Signature.Recv(); recv != nil {
		t := recv.Type()
		if pt, ok := t.(*types.Pointer); ok {
			t = pt.Elem()
		}
		if n, ok := t.(*types.Named); ok {
			if n.Obj().Pkg() != nil {
				q = pkgQualifier(n.Obj().Pkg())
			}
			return q + "." + n.Obj().Name() + "." + fn.Name()
		}
		return ""
	}
	if q == "" {
		return ""
	}
	return q + "." + fn.Name()
}

func (p *Program) posString(pos token.Pos) string {
	if !pos.IsValid() {
		return ""
	}
	ps := p.Fset.Position(pos)
	rel, err := filepath.Rel(p.Repo, ps.Filename)
	if err != nil {
		rel = ps.Filename
	}
	return fmt.Sprintf("%s:%d", rel, ps.Line)
}

// source text of the smallest expression enclosing pos (for obligation descriptors)
func (p *Program) exprTextAt(pos token.Pos, want func(ast.Node) bool) string {
	if !pos.IsValid() {
		return ""
	}
	ps := p.Fset.Position(pos)
	f := p.files[ps.Filename]
	if f == nil {
		return ""
	}
	var best ast.Node
	ast.Inspect(f, func(n ast.Node) bool {
		if n == nil {
			return false
		}
		if n.Pos() <= pos && pos < n.End() {
			if want(n) {
				best = n
			}
			return true
		}
		return false
	})
	if best == nil {
		return ""
	}
	var b bytes.Buffer
	printer.Fprint(&b, p.Fset, best)
	s := strings.Join(strings.Fields(b.String()), " ")
	if len(s) > 60 {
		s = s[:60]
	}
	return s
}

func (p *Program) sortedFuncKeys() []string {
	ks := make([]string, 0, len(p.ByKey))
	for k := range p.ByKey {
		ks = append(ks, k)
	}
	sort.Strings(ks)
	return ks
}

func isRepoFunc(fn *ssa.Function) bool {
	var pkg *types.Package
	if fn.Pkg != nil {
		pkg = fn.Pkg.Pkg
	} else if fn.Object() != nil {
		pkg = fn.Object().Pkg()
	} else if fn.Parent() != nil {
		return isRepoFunc(fn.Parent())
	}
	return pkg != nil && strings.HasPrefix(pkg.Path(), "github.com/martian-lang/martian")
}


// funcValueTargets: repository functions with the given signature that occur as values
// (closures, method values, functions stored or passed).
func (p *Program) funcValueTargets(sig *types.Signature) []*ssa.Function {
	if p.fvTargets == nil {
		p.fvTargets = map[string][]*ssa.Function{}
		seen := map[*ssa.Function]bool{}
		add := func(fn *ssa.Function) {
			if fn == nil || seen[fn] || !isRepoFunc(fn) {
				return
			}
			seen[fn] = true
			k := sigKey(fn.Signature)
			p.fvTargets[k] = append(p.fvTargets[k], fn)
		}
		for _, key := range p.sortedFuncKeys() {
			fn := p.ByKey[key]
			if !isRepoFunc(fn) {
				continue
			}
			for _, b := range fn.Blocks {
				for _, in := range b.Instrs {
					if mc, ok := in.(*ssa.MakeClosure); ok {
						add(mc.Fn.(*ssa.Function))
						continue
					}
					var callee ssa.Value
					if c, ok := in.(ssa.CallInstruction); ok {
						callee = c.Common().Value
					}
					for _, op := range in.Operands(nil) {
						if f2, ok := (*op).(*ssa.Function); ok && *op != callee {
							add(f2)
						}
					}
				}
			}
		}
	}
	return p.fvTargets[sigKey(sig)]
}

func sigKey(sig *types.Signature) string {
	// parameter and result TYPES only (receiver-less view, as seen through a func value)
	var b strings.Builder
	b.WriteString("func(")
	for i := 0; i < sig.Params().Len(); i++ {
		if i > 0 {
			b.WriteString(",")
		}
		b.WriteString(types.TypeString(types.Unalias(sig.Params().At(i).Type()), pkgQualifier))
	}
	if sig.Variadic() {
		b.WriteString("...")
	}
	b.WriteString(")(")
	for i := 0; i < sig.Results().Len(); i++ {
		if i > 0 {
			b.WriteString(",")
		}
		b.WriteString(types.TypeString(types.Unalias(sig.Results().At(i).Type()), pkgQualifier))
	}
	b.WriteString(")")
	return b.String()
}


// implementers of an interface method among the named types of the program
// (nil entries never occur; found=false when no type implements the interface at all)
func (p *Program) implementers(c *ssa.CallCommon) ([]*ssa.Function, bool) {
	iface, ok := c.Value.Type().Underlying().(*types.Interface)
	if !ok {
		return nil, false
	}
	key := types.TypeString(c.Value.Type(), nil) + "." + c.Method.Name()
	if p.implCache == nil {
		p.implCache = map[string][]*ssa.Function{}
	}
	if fs, ok := p.implCache[key]; ok {
		return fs, len(fs) > 0
	}
	var out []*ssa.Function
	for _, nk := range p.sortedNamed() {
		n := p.Named[nk]
		if _, isIface := n.Underlying().(*types.Interface); isIface {
			continue
		}
		for _, t := range []types.Type{n, types.NewPointer(n)} {
			if !types.Implements(t, iface) {
				continue
			}
			sel := p.SSA.MethodSets.MethodSet(t).Lookup(c.Method.Pkg(), c.Method.Name())
			if sel == nil {
				continue
			}
			if fn := p.SSA.MethodValue(sel); fn != nil {
				out = append(out, fn)
			}
			break
		}
	}
	p.implCache[key] = out
	return out, len(out) > 0
}
