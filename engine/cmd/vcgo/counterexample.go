package main

// Counterexample search and replay on the real code.
//
// A failed obligation with quantified facts usually yields "unknown", not a
// model.  We therefore search a quantifier-free relaxation (quantified facts
// replaced by their instances over a small index range, spec axioms dropped,
// inputs bounded in length) for a model, read the parameter values and run the
// real function on them through an in-package test injected with -overlay.
// The relaxation may produce spurious models: only a replay that fails on the
// real code confirms a violation.

import (
	"bytes"
	"context"
	"encoding/json"
	"fmt"
	"go/types"
	"os"
	"os/exec"
	"path/filepath"
	"regexp"
	"strconv"
	"strings"
	"time"
)

const ceBound = 8

func hasQuant(t *Term) bool {
	if len(t.Q) > 0 {
		return true
	}
	for _, a := range t.Args {
		if hasQuant(a) {
			return true
		}
	}
	return false
}

// instances of top-level (possibly guarded) single-variable foralls over 0..ceBound
func instantiate(t *Term) []*Term {
	switch {
	case t.Op == "forall" && len(t.Q) == 1 && t.Q[0].S.K == SInt && !hasQuant(t.Args[0]):
		var out []*Term
		for i := int64(0); i <= ceBound; i++ {
			out = append(out, t.Args[0].Subst(map[string]*Term{t.Q[0].Name: IntLit(i)}))
		}
		return out
	case t.Op == "=>" && len(t.Args) == 2 && !hasQuant(t.Args[0]):
		var out []*Term
		for _, x := range instantiate(t.Args[1]) {
			out = append(out, Implies(t.Args[0], x))
		}
		return out
	case t.Op == "and":
		var out []*Term
		for _, a := range t.Args {
			if hasQuant(a) {
				out = append(out, instantiate(a)...)
			} else {
				out = append(out, a)
			}
		}
		return out
	}
	return nil
}

func preludeNoAxioms(text string) string {
	xs, err := parseSexpsRaw(text)
	if err != nil {
		return ""
	}
	var b strings.Builder
	for _, x := range xs {
		if strings.HasPrefix(x, "(assert") {
			continue
		}
		b.WriteString(x + "\n")
	}
	return b.String()
}

// top-level forms as raw text
func parseSexpsRaw(src string) ([]string, error) {
	var out []string
	depth, start := 0, -1
	inStr, inComment := false, false
	for i := 0; i < len(src); i++ {
		c := src[i]
		if inComment {
			if c == '\n' {
				inComment = false
			}
			continue
		}
		if inStr {
			if c == '"' {
				inStr = false
			}
			continue
		}
		switch c {
		case ';':
			inComment = true
		case '"':
			inStr = true
		case '(':
			if depth == 0 {
				start = i
			}
			depth++
		case ')':
			depth--
			if depth == 0 && start >= 0 {
				out = append(out, src[start:i+1])
				start = -1
			}
		}
	}
	return out, nil
}

type ceParam struct {
	name string
	typ  types.Type
	val  *Val
}

func findCounterexample(p *Program, o *Obl) ceResult {
	res := ceResult{report: map[string]interface{}{}}
	e := o.Enc
	if e == nil || e.Top == nil || len(e.topParams) == 0 {
		res.report["counterexample"] = "not attempted (no parameters / lemma)"
		return res
	}
	if e.TopC != nil && len(e.TopC.Probes) > 0 {
		return probeCounterexample(p, o)
	}
	// value probes
	type probe struct {
		label string
		t     *Term
	}
	var probes []probe
	var bounds []*Term
	var ascii []*Term // first attempt: printable-ish ASCII bytes (most contracts require valid text)
	supported := true
	for _, cp := range e.topParams {
		v := cp.val
		switch v.K {
		case VScalar:
			if v.X.S.K == SString {
				bounds = append(bounds, Le(App("str.len", IntS, v.X), IntLit(ceBound)))
			}
			probes = append(probes, probe{cp.name, v.X})
		case VBytes:
			bounds = append(bounds, Le(v.Len, IntLit(ceBound)))
			probes = append(probes, probe{cp.name + ".len", v.Len})
			for i := int64(0); i < ceBound; i++ {
				probes = append(probes, probe{fmt.Sprintf("%s[%d]", cp.name, i), Select(v.Arr, Add(v.Off, IntLit(i)))})
				ascii = append(ascii, And(Ge(Select(v.Arr, Add(v.Off, IntLit(i))), IntLit(1)), Le(Select(v.Arr, Add(v.Off, IntLit(i))), IntLit(127))))
			}
		case VSlice:
			if key, ls := sliceElemKey(v.T, e.Mode); len(ls) == 1 && ls[0].sort.K == SInt {
				bounds = append(bounds, Le(v.Len, IntLit(ceBound)))
				probes = append(probes, probe{cp.name + ".len", v.Len})
				arr := Select(entryVar(key, ArrayS(IntS, ArrayS(IntS, IntS))), v.Base)
				for i := int64(0); i < ceBound; i++ {
					probes = append(probes, probe{fmt.Sprintf("%s[%d]", cp.name, i), Select(arr, Add(v.Off, IntLit(i)))})
				}
			} else {
				supported = false
			}
		case VIface:
			// an interface parameter (e.g. the writer of a formatting function): not probed; a
			// replay template that needs it cannot be filled and the replay is then not attempted
		default:
			supported = false
		}
	}
	if !supported {
		res.report["counterexample"] = "not attempted: parameters are heap structures the replay harness cannot construct"
		return res
	}
	var b strings.Builder
	b.WriteString("(set-option :produce-models true)\n(set-logic ALL)\n")
	for _, lib := range e.P.Spec.preludeOrder(e.Uses) {
		b.WriteString(preludeNoAxioms(e.P.Spec.LibText[lib]))
	}
	for _, d := range e.funDecls {
		b.WriteString(d + "\n")
	}
	for _, n := range e.declOrder {
		fmt.Fprintf(&b, "(declare-const %s %s)\n", quoteSym(n), e.decls[n])
	}
	for _, f := range e.facts {
		if f.Ord >= o.Ord {
			continue
		}
		if !hasQuant(f.T) {
			b.WriteString(factText(f) + "\n")
			continue
		}
		for _, inst := range instantiate(f.T) {
			b.WriteString(factText(&Fact{Guard: f.Guard, T: inst}) + "\n")
		}
	}
	for _, bd := range bounds {
		b.WriteString("(assert " + bd.String() + ")\n")
	}
	b.WriteString("(assert " + o.Guard.String() + ")\n")
	goal := o.Goal
	if goal.Op == "forall" && len(goal.Args) == 1 && !hasQuant(goal.Args[0]) {
		// a universally quantified goal: look for a violating instance (fresh constants)
		sub := map[string]*Term{}
		for _, q := range goal.Q {
			c := "ce!" + q.Name
			fmt.Fprintf(&b, "(declare-const %s %s)\n", quoteSym(c), q.S)
			sub[q.Name] = Var(c, q.S)
		}
		goal = goal.Args[0].Subst(sub)
	}
	if hasQuant(goal) {
		res.report["counterexample"] = "not attempted: quantified goal"
		return res
	}
	b.WriteString("(assert (not " + goal.String() + "))\n")
	var tail strings.Builder
	tail.WriteString("(check-sat)\n(get-value (")
	for _, pr := range probes {
		tail.WriteString(pr.t.String() + " ")
	}
	tail.WriteString("))\n")
	dir, _ := os.MkdirTemp("", "vcgo-ce-")
	defer os.RemoveAll(dir)
	qf := filepath.Join(dir, "ce.smt2")
	var out string
attempts:
	for attempt := 0; attempt < 2; attempt++ {
		extra := ""
		if attempt == 0 {
			if len(ascii) == 0 {
				continue
			}
			extra = "(assert " + And(ascii...).String() + ")\n"
		}
		os.WriteFile(qf, []byte(b.String()+extra+tail.String()), 0o644)
		for _, s := range []string{"z3-new", "z3"} {
			ctx, cancel := context.WithTimeout(context.Background(), 25*time.Second)
			o2, _ := runSolver(ctx, []string{s, "-T:20", qf})
			cancel()
			if strings.HasPrefix(strings.TrimSpace(o2), "sat") {
				out = o2
				res.report["model_solver"] = s + " (quantifier-free relaxation, inputs of length <= 8)"
				break attempts
			}
		}
	}
	if out == "" {
		res.report["counterexample"] = "the bounded quantifier-free relaxation has no model within 20 s"
		return res
	}
	vals := parseGetValue(out, len(probes))
	if vals == nil {
		res.report["counterexample"] = "model could not be parsed"
		res.report["raw_model"] = trimTo(out, 4000)
		return res
	}
	model := map[string]string{}
	for i, pr := range probes {
		model[pr.label] = vals[i]
	}
	res.report["model"] = model
	// Go literals of the parameters
	lits := map[string]string{}
	for _, cp := range e.topParams {
		v := cp.val
		switch v.K {
		case VScalar:
			lits[cp.name] = goScalarLit(model[cp.name], cp.typ)
		case VBytes, VSlice:
			n, _ := strconv.Atoi(model[cp.name+".len"])
			if n < 0 || n > ceBound {
				n = 0
			}
			var bs []byte
			for i := 0; i < n; i++ {
				x, _ := strconv.Atoi(model[fmt.Sprintf("%s[%d]", cp.name, i)])
				bs = append(bs, byte(x))
			}
			if v.K == VBytes {
				lits[cp.name] = goStringLit(bs)
			} else {
				lits[cp.name] = "[]byte(" + goStringLit(bs) + ")"
			}
		}
	}
	res.report["inputs"] = lits
	tmpl := ""
	if e.TopC != nil {
		tmpl = e.TopC.Opts["replay"]
	}
	if tmpl == "" {
		res.report["replay"] = "no replay template registered for this function"
		return res
	}
	ok, log := runReplay(p, e, tmpl, lits)
	res.report["replay_log"] = trimTo(log, 4000)
	res.confirmed = ok
	if ok {
		res.report["replay"] = "FAILED on the real code: violation confirmed"
	} else {
		res.report["replay"] = "the model did not fail on the real code (spurious model of the relaxation, or the obligation is an inductive step)"
	}
	return res
}

func trimTo(s string, n int) string {
	if len(s) > n {
		return s[:n] + "..."
	}
	return s
}

func sliceElemKey(t types.Type, m Mode) (string, []leaf) {
	sl, ok := t.Underlying().(*types.Slice)
	if !ok {
		return "", nil
	}
	defer func() { recover() }()
	return "M$" + typeKey(sl.Elem()), leavesOf(sl.Elem(), m)
}

func (sl *SpecLib) preludeOrder(uses map[string]bool) []string {
	var order []string
	seen := map[string]bool{}
	var add func(l string)
	add = func(l string) {
		if seen[l] {
			return
		}
		seen[l] = true
		for _, d := range sl.LibDeps[l] {
			add(d)
		}
		order = append(order, l)
	}
	for _, l := range sortedKeys(uses) {
		if _, ok := sl.LibText[l]; ok {
			add(l)
		}
	}
	return order
}

var valueRe = regexp.MustCompile(`\(\s*-\s*(\d+)\s*\)|"((?:[^"]|"")*)"|(true|false)|(\d+(?:\.\d+)?)`)

// parseGetValue extracts the values of a (get-value ...) answer: ((term value) ...)
func parseGetValue(out string, n int) []string {
	i := strings.Index(out, "((")
	if i < 0 {
		return nil
	}
	xs, err := parseSexps(out[i:])
	if err != nil || len(xs) == 0 || !xs[0].isL {
		return nil
	}
	var vals []string
	for _, pair := range xs[0].list {
		if !pair.isL || len(pair.list) != 2 {
			return nil
		}
		vals = append(vals, sexpValue(pair.list[1]))
	}
	if len(vals) != n {
		return nil
	}
	return vals
}

func sexpValue(s *sexp) string {
	if !s.isL {
		return s.atom
	}
	if len(s.list) == 2 && s.list[0].atom == "-" {
		return "-" + sexpValue(s.list[1])
	}
	if len(s.list) == 3 && s.list[0].atom == "/" {
		return sexpValue(s.list[1]) + "/" + sexpValue(s.list[2])
	}
	return "?"
}

func goScalarLit(v string, t types.Type) string {
	if b, ok := t.Underlying().(*types.Basic); ok {
		switch {
		case b.Info()&types.IsString != 0:
			return goStringLit([]byte(smtUnescape(v)))
		case b.Info()&types.IsBoolean != 0:
			return v
		case b.Info()&types.IsInteger != 0:
			return types.TypeString(t, func(p *types.Package) string { return "" }) + "(" + v + ")"
		case b.Info()&types.IsFloat != 0:
			if strings.Contains(v, "/") {
				ps := strings.SplitN(v, "/", 2)
				return "float64(" + ps[0] + ")/float64(" + ps[1] + ")"
			}
			return "float64(" + v + ")"
		}
	}
	return v
}

func smtUnescape(v string) string {
	v = strings.TrimPrefix(v, "\"")
	v = strings.TrimSuffix(v, "\"")
	v = strings.ReplaceAll(v, `""`, `"`)
	re := regexp.MustCompile(`\\u\{([0-9a-fA-F]+)\}|\\x([0-9a-fA-F]{2})`)
	return re.ReplaceAllStringFunc(v, func(m string) string {
		sub := re.FindStringSubmatch(m)
		h := sub[1]
		if h == "" {
			h = sub[2]
		}
		n, _ := strconv.ParseInt(h, 16, 32)
		if n < 256 {
			return string([]byte{byte(n)})
		}
		return string(rune(n))
	})
}

func goStringLit(bs []byte) string {
	var b strings.Builder
	b.WriteByte('"')
	for _, c := range bs {
		switch {
		case c == '"' || c == '\\':
			b.WriteByte('\\')
			b.WriteByte(c)
		case c >= 0x20 && c < 0x7f:
			b.WriteByte(c)
		default:
			fmt.Fprintf(&b, "\\x%02x", c)
		}
	}
	b.WriteByte('"')
	return b.String()
}

// runReplay injects an in-package test through -overlay and runs it.
// It returns true when the test FAILS with the VERIF-REPLAY-FAIL marker.
func runReplay(p *Program, e *Enc, tmpl string, lits map[string]string) (bool, string) {
	return runReplayWith(p, e, tmpl, lits, "P")
}

func runReplayWith(p *Program, e *Enc, tmpl string, lits map[string]string, tag string) (bool, string) {
	data, err := os.ReadFile(filepath.Join(verifDir, "replay", tmpl+".go.tmpl"))
	if err != nil {
		return false, "replay template missing: " + err.Error()
	}
	src := string(data)
	for k, v := range lits {
		src = strings.ReplaceAll(src, "{{"+tag+":"+k+"}}", v)
	}
	if strings.Contains(src, "{{"+tag+":") {
		return false, "replay template has unfilled parameters"
	}
	pkgDir := ""
	if e.Top.Pkg != nil {
		pkgDir = strings.TrimPrefix(e.Top.Pkg.Pkg.Path(), "github.com/martian-lang/martian/")
	}
	dir, _ := os.MkdirTemp("", "vcgo-replay-")
	defer os.RemoveAll(dir)
	testFile := filepath.Join(dir, "zz_verif_replay_test.go")
	os.WriteFile(testFile, []byte(src), 0o644)
	ov := map[string]map[string]string{"Replace": {filepath.Join(repoDir, pkgDir, "zz_verif_replay_test.go"): testFile}}
	ovData, _ := json.Marshal(ov)
	ovFile := filepath.Join(dir, "ov.json")
	os.WriteFile(ovFile, ovData, 0o644)
	ctx, cancel := context.WithTimeout(context.Background(), 180*time.Second)
	defer cancel()
	cmd := exec.CommandContext(ctx, "go", "test", "-overlay", ovFile, "-vet=off", "-count=1", "-timeout", "60s", "-run", "^TestVerifReplay$", "./"+pkgDir)
	cmd.Dir = repoDir
	cmd.Env = append(os.Environ(), "GOFLAGS=-mod=mod", "GOPROXY=off", "GOSUMDB=off", "GOTOOLCHAIN=local", "VERIF_REPLAY_TMP="+dir)
	var out bytes.Buffer
	cmd.Stdout = &out
	cmd.Stderr = &out
	cmd.Run()
	s := out.String()
	return strings.Contains(s, "VERIF-REPLAY-FAIL"), s
}


// probeCounterexample: the contract names the values (probes) from which the
// replay template builds concrete heap objects.
func probeCounterexample(p *Program, o *Obl) (res ceResult) {
	res = ceResult{report: map[string]interface{}{}}
	e := o.Enc
	f := e.topFrame
	type probe struct {
		label string
		t     *Term
	}
	var probes []probe
	func() {
		defer func() {
			if r := recover(); r != nil {
				res.report["counterexample"] = fmt.Sprint("probe evaluation failed: ", r)
				probes = nil
			}
		}()
		env := &Env{F: f, State: f.entryState, Old: f.entryState, Fn: f.Fn}
		for _, cl := range e.TopC.Probes {
			v := f.evalC(cl.E, env)
			if v.K != VScalar {
				panic("probe " + cl.Label + " is not scalar")
			}
			probes = append(probes, probe{cl.Label, v.X})
		}
	}()
	if len(probes) == 0 {
		return res
	}
	if hasQuant(o.Goal) {
		res.report["counterexample"] = "not attempted: quantified goal"
		return res
	}
	var b strings.Builder
	b.WriteString("(set-option :produce-models true)\n(set-logic ALL)\n")
	for _, lib := range e.P.Spec.preludeOrder(e.Uses) {
		b.WriteString(preludeNoAxioms(e.P.Spec.LibText[lib]))
	}
	for _, d := range e.funDecls {
		b.WriteString(d + "\n")
	}
	for _, n := range e.declOrder {
		fmt.Fprintf(&b, "(declare-const %s %s)\n", quoteSym(n), e.decls[n])
	}
	// probe terms may mention entry variables not declared yet
	seen := map[string]bool{}
	for _, pr := range probes {
		vs := map[string]*Sort{}
		pr.t.Vars(vs)
		for n, srt := range vs {
			if _, ok := e.decls[n]; !ok && !seen[n] && strings.HasPrefix(n, "H0$") {
				seen[n] = true
				fmt.Fprintf(&b, "(declare-const %s %s)\n", quoteSym(n), srt)
			}
		}
	}
	for _, fct := range e.facts {
		if fct.Ord >= o.Ord {
			continue
		}
		if !hasQuant(fct.T) {
			b.WriteString(factText(fct) + "\n")
			continue
		}
		for _, inst := range instantiate(fct.T) {
			b.WriteString(factText(&Fact{Guard: fct.Guard, T: inst}) + "\n")
		}
	}
	b.WriteString("(assert " + o.Guard.String() + ")\n(assert (not " + o.Goal.String() + "))\n")
	// soft hints of the contract ("cehint"): steer the model towards inputs on which the
	// abstractions used in the proof do not matter; tried first, dropped if unsatisfiable
	hints := ""
	func() {
		defer func() { recover() }()
		env := &Env{F: f, State: f.entryState, Old: f.entryState, Fn: f.Fn}
		for _, cl := range e.TopC.CEHints {
			hints += "(assert " + f.evalBool(cl.E, env).String() + ")\n"
		}
	}()
	tail := "(check-sat)\n(get-value ("
	for _, pr := range probes {
		tail += pr.t.String() + " "
	}
	tail += "))\n"
	dir, _ := os.MkdirTemp("", "vcgo-ce-")
	defer os.RemoveAll(dir)
	qf := filepath.Join(dir, "ce.smt2")
	out := ""
	variants := []string{b.String() + tail}
	if hints != "" {
		variants = []string{b.String() + hints + tail, b.String() + tail}
	}
	for vi, q := range variants {
		os.WriteFile(qf, []byte(q), 0o644)
		for _, s := range []string{"z3-new", "z3"} {
			ctx, cancel := context.WithTimeout(context.Background(), 25*time.Second)
			o2, _ := runSolver(ctx, []string{s, "-T:20", qf})
			cancel()
			if strings.HasPrefix(strings.TrimSpace(o2), "sat") {
				out = o2
				res.report["model_solver"] = s + " (quantifier-free relaxation)"
				if hints != "" && vi == 0 {
					res.report["model_solver"] = s + " (quantifier-free relaxation, with the contract's cehint constraints)"
				}
				break
			}
		}
		if out != "" {
			break
		}
	}
	if out == "" {
		res.report["counterexample"] = "the quantifier-free relaxation has no model within 20 s"
		return res
	}
	vals := parseGetValue(out, len(probes))
	if vals == nil {
		res.report["counterexample"] = "model could not be parsed"
		res.report["raw_model"] = trimTo(out, 3000)
		return res
	}
	lits := map[string]string{}
	for i, pr := range probes {
		lits[pr.label] = vals[i]
	}
	res.report["model"] = lits
	tmpl := e.TopC.Opts["replay"]
	if tmpl == "" {
		res.report["replay"] = "no replay template registered for this function"
		return res
	}
	ok, log := runReplayWith(p, e, tmpl, lits, "V")
	res.report["replay_log"] = trimTo(log, 4000)
	res.confirmed = ok
	if ok {
		res.report["replay"] = "FAILED on the real code: violation confirmed"
	} else {
		res.report["replay"] = "the model did not fail on the real code (spurious model of the relaxation, or the obligation is an inductive step)"
	}
	return res
}
