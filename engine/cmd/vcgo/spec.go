package main

// Spec libraries (SMT-LIB preludes) and the table of trusted default effects.

import (
	"fmt"
	"os"
	"path/filepath"
	"sort"
	"strconv"
	"strings"

	"golang.org/x/tools/go/ssa"
)

type SpecSym struct {
	Name string
	Args []*Sort
	Res  *Sort
	Lib  string
}

type effectRule struct {
	kind   string // pkg func prefix functype iface
	name   string
	writes []int
}

type SpecLib struct {
	Syms    map[string]*SpecSym
	LibText map[string]string
	LibDeps map[string][]string
	Rules   []effectRule
	Ghosts  map[string]*Sort
	Counters map[string]bool // ghost arrays that are event counters (monotone)
	Axioms  map[string]int // lib -> number of assert forms (trusted axioms)
}

// ---- s-expressions

type sexp struct {
	atom string
	list []*sexp
	isL  bool
}

func parseSexps(src string) ([]*sexp, error) {
	var out []*sexp
	pos := 0
	var parse func() (*sexp, error)
	skip := func() {
		for pos < len(src) {
			c := src[pos]
			if c == ';' {
				for pos < len(src) && src[pos] != '\n' {
					pos++
				}
			} else if c == ' ' || c == '\t' || c == '\n' || c == '\r' {
				pos++
			} else {
				break
			}
		}
	}
	parse = func() (*sexp, error) {
		skip()
		if pos >= len(src) {
			return nil, fmt.Errorf("unexpected end")
		}
		switch src[pos] {
		case '(':
			pos++
			s := &sexp{isL: true}
			for {
				skip()
				if pos >= len(src) {
					return nil, fmt.Errorf("unbalanced parens")
				}
				if src[pos] == ')' {
					pos++
					return s, nil
				}
				c, err := parse()
				if err != nil {
					return nil, err
				}
				s.list = append(s.list, c)
			}
		case ')':
			return nil, fmt.Errorf("unexpected )")
		case '"':
			start := pos
			pos++
			for pos < len(src) {
				if src[pos] == '"' {
					if pos+1 < len(src) && src[pos+1] == '"' {
						pos += 2
						continue
					}
					break
				}
				pos++
			}
			pos++
			return &sexp{atom: src[start:pos]}, nil
		case '|':
			start := pos
			pos++
			for pos < len(src) && src[pos] != '|' {
				pos++
			}
			pos++
			return &sexp{atom: src[start:pos]}, nil
		}
		start := pos
		for pos < len(src) && !strings.ContainsRune(" \t\n\r()", rune(src[pos])) {
			pos++
		}
		return &sexp{atom: src[start:pos]}, nil
	}
	for {
		skip()
		if pos >= len(src) {
			return out, nil
		}
		s, err := parse()
		if err != nil {
			return nil, err
		}
		out = append(out, s)
	}
}

func sortFromSexp(s *sexp) (*Sort, error) {
	if !s.isL {
		switch s.atom {
		case "Int":
			return IntS, nil
		case "Bool":
			return BoolS, nil
		case "Real":
			return RealS, nil
		case "String":
			return StringS, nil
		}
		return nil, fmt.Errorf("unknown sort %s", s.atom)
	}
	if len(s.list) == 3 && s.list[0].atom == "Array" {
		a, err := sortFromSexp(s.list[1])
		if err != nil {
			return nil, err
		}
		b, err := sortFromSexp(s.list[2])
		if err != nil {
			return nil, err
		}
		return ArrayS(a, b), nil
	}
	return nil, fmt.Errorf("unknown sort form")
}

func parseSortText(s string) (*Sort, error) {
	xs, err := parseSexps(s)
	if err != nil || len(xs) != 1 {
		return nil, fmt.Errorf("bad sort %q", s)
	}
	return sortFromSexp(xs[0])
}

func LoadSpecLib(dir string) (*SpecLib, error) {
	sl := &SpecLib{Syms: map[string]*SpecSym{}, LibText: map[string]string{}, LibDeps: map[string][]string{}, Ghosts: map[string]*Sort{}, Axioms: map[string]int{}}
	files, _ := filepath.Glob(filepath.Join(dir, "*.smt2"))
	sort.Strings(files)
	for _, fn := range files {
		lib := strings.TrimSuffix(filepath.Base(fn), ".smt2")
		data, err := os.ReadFile(fn)
		if err != nil {
			return nil, err
		}
		text := string(data)
		sl.LibText[lib] = text
		for _, line := range strings.Split(text, "\n") {
			if strings.HasPrefix(line, ";; requires:") {
				sl.LibDeps[lib] = append(sl.LibDeps[lib], strings.Fields(strings.TrimPrefix(line, ";; requires:"))...)
			}
		}
		if err := sl.addSyms(lib, text, fn); err != nil {
			return nil, err
		}
	}
	// effects table
	if data, err := os.ReadFile(filepath.Join(dir, "effects.txt")); err == nil {
		for i, line := range strings.Split(string(data), "\n") {
			if k := strings.Index(line, "#"); k >= 0 {
				line = line[:k]
			}
			fs := strings.Fields(line)
			if len(fs) == 0 {
				continue
			}
			switch fs[0] {
			case "pure":
				if len(fs) != 3 {
					return nil, fmt.Errorf("effects.txt:%d: pure <kind> <name>", i+1)
				}
				sl.Rules = append(sl.Rules, effectRule{kind: fs[1], name: fs[2]})
			case "writes":
				r := effectRule{kind: fs[1], name: fs[2]}
				for _, a := range fs[3:] {
					n, err := strconv.Atoi(a)
					if err != nil {
						return nil, fmt.Errorf("effects.txt:%d: %v", i+1, err)
					}
					r.writes = append(r.writes, n)
				}
				sl.Rules = append(sl.Rules, r)
			case "ghost", "counter":
				s, err := parseSortText(strings.Join(fs[2:], " "))
				if err != nil {
					return nil, fmt.Errorf("effects.txt:%d: %v", i+1, err)
				}
				sl.Ghosts[fs[1]] = s
				if fs[0] == "counter" {
					// an event counter: only ever incremented (effect g idx), so whatever an
					// unverified stretch of code does to it, no entry decreases
					if sl.Counters == nil {
						sl.Counters = map[string]bool{}
					}
					sl.Counters[fs[1]] = true
				}
			default:
				return nil, fmt.Errorf("effects.txt:%d: unknown directive %s", i+1, fs[0])
			}
		}
	}
	return sl, nil
}

func (sl *SpecLib) ghostSort(name string) (*Sort, bool) {
	if sl == nil {
		return nil, false
	}
	s, ok := sl.Ghosts[name]
	if ok {
		return s, true
	}
	if name == "closed" {
		return ArrayS(IntS, BoolS), true
	}
	if strings.HasPrefix(name, "held$") {
		return ArrayS(IntS, BoolS), true
	}
	return nil, false
}

func (sl *SpecLib) defaultEffect(key string, fn *ssa.Function) (effect, bool) {
	if sl == nil {
		return effect{}, false
	}
	pkg := key
	if k := strings.LastIndex(key, "."); k >= 0 {
		pkg = key[:k]
		// methods: pkg.Type.Method
		if fn != nil && fn.Signature.Recv() != nil {
			if k2 := strings.LastIndex(pkg, "."); k2 >= 0 {
				pkg = pkg[:k2]
			}
		} else if fn == nil {
			if k2 := strings.LastIndex(pkg, "."); k2 >= 0 {
				pkg = pkg[:k2]
			}
		}
	}
	for _, r := range sl.Rules {
		match := false
		switch r.kind {
		case "pkg":
			match = pkg == r.name
		case "func", "iface":
			match = key == r.name
		case "prefix":
			match = strings.HasPrefix(key, r.name)
		}
		if match {
			note := fmt.Sprintf("%s: no effect on modelled state, result unconstrained (effects.txt: %s %s)", key, r.kind, r.name)
			if len(r.writes) > 0 {
				note = fmt.Sprintf("%s: writes only through argument(s) %v, result unconstrained (effects.txt)", key, r.writes)
			}
			return effect{pure: len(r.writes) == 0, note: note, writes: r.writes}, true
		}
	}
	return effect{}, false
}

func (sl *SpecLib) funcTypeEffect(typeKey string) (effect, bool) {
	if sl == nil {
		return effect{}, false
	}
	for _, r := range sl.Rules {
		if r.kind == "functype" && (r.name == typeKey || r.name == "*") {
			return effect{pure: true, note: "calls through function values of type " + typeKey + " have no effect on modelled state (effects.txt)"}, true
		}
	}
	return effect{}, false
}

// prelude text for the libraries used (dependencies first)
func (sl *SpecLib) Prelude(uses map[string]bool) string {
	var order []string
	seen := map[string]bool{}
	var add func(l string)
	add = func(l string) {
		if seen[l] {
			return
		}
		seen[l] = true
		for _, d := range sl.LibDeps[l] {
			add(d)
		}
		order = append(order, l)
	}
	for _, l := range sortedKeys(uses) {
		if _, ok := sl.LibText[l]; ok {
			add(l)
		}
	}
	var b strings.Builder
	for _, l := range order {
		b.WriteString("; ---- spec library " + l + "\n")
		b.WriteString(sl.LibText[l])
		b.WriteString("\n")
	}
	return b.String()
}


func (sl *SpecLib) addSyms(lib, text, fn string) error {
		xs, err := parseSexps(text)
		if err != nil {
			return fmt.Errorf("%s: %v", fn, err)
		}
		for _, x := range xs {
			if !x.isL || len(x.list) == 0 {
				continue
			}
			switch x.list[0].atom {
			case "define-fun", "define-fun-rec":
				if len(x.list) < 5 {
					return fmt.Errorf("%s: bad define-fun", fn)
				}
				sym := &SpecSym{Name: strings.Trim(x.list[1].atom, "|"), Lib: lib}
				for _, p := range x.list[2].list {
					s, err := sortFromSexp(p.list[1])
					if err != nil {
						return fmt.Errorf("%s: %s: %v", fn, sym.Name, err)
					}
					sym.Args = append(sym.Args, s)
				}
				r, err := sortFromSexp(x.list[3])
				if err != nil {
					return fmt.Errorf("%s: %s: %v", fn, sym.Name, err)
				}
				sym.Res = r
				sl.Syms[sym.Name] = sym
			case "declare-fun":
				sym := &SpecSym{Name: strings.Trim(x.list[1].atom, "|"), Lib: lib}
				for _, p := range x.list[2].list {
					s, err := sortFromSexp(p)
					if err != nil {
						return fmt.Errorf("%s: %s: %v", fn, sym.Name, err)
					}
					sym.Args = append(sym.Args, s)
				}
				r, err := sortFromSexp(x.list[3])
				if err != nil {
					return err
				}
				sym.Res = r
				sl.Syms[sym.Name] = sym
			case "declare-const":
				r, err := sortFromSexp(x.list[2])
				if err != nil {
					return err
				}
				sl.Syms[strings.Trim(x.list[1].atom, "|")] = &SpecSym{Name: strings.Trim(x.list[1].atom, "|"), Res: r, Lib: lib}
			case "assert":
				sl.Axioms[lib]++
			}
		}
	return nil
}

// AddLib registers a generated library (e.g. a token-rule automaton).
func (sl *SpecLib) AddLib(lib, text string) error {
	sl.LibText[lib] = text
	return sl.addSyms(lib, text, lib)
}
