#!/bin/sh
# Build the verification engine offline from files on disk.
set -e
cd "$(dirname "$0")/engine"
export GOFLAGS=-mod=mod GOPROXY=off GOSUMDB=off GOTOOLCHAIN=local
go build -o ../bin/vcgo ./cmd/vcgo
