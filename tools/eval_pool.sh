#!/bin/bash
# usage: [JOBS=n] tools/eval_pool.sh : runs every behaviour-preserving patch of selftest/harmless_pool/ against ALL 18
# quick checks (tools/eval_harmless.sh, scratch copies of /repo's working tree) and prints the patches that alarm.
cd "$(dirname "$0")/.."
out=$(mktemp -d /tmp/pool.XXXXXX)
ls selftest/harmless_pool/*.diff | xargs -P "${JOBS:-4}" -I{} sh -c 'tools/eval_harmless.sh {} > '"$out"'/$(basename {}).log 2>&1'
echo "quiet: $(grep -l QUIET "$out"/*.log | wc -l) of $(ls "$out"/*.log | wc -l)"
grep -h ALARM "$out"/*.log | cut -c1-300
rm -rf "$out"
