#!/usr/bin/env python3
# Regenerates /verif/MANIFEST.json from the table below (kept small and explicit).
import json, subprocess
props=[json.loads(l) for l in open('/verif/properties.jsonl')]
ids=[p['id'] for p in props]
claimed = json.load(open('/verif/tools/claims.json'))
def hooks_commits():
    out=subprocess.run(['git','-C','/repo','log','--format=%h %s'],capture_output=True,text=True).stdout
    return [l.split()[0] for l in out.splitlines() if l.split(' ',1)[1].startswith('verif:')]
m={"version":1,
 "setup_cmd":"./setup.sh",
 "hooks":{"guard":"verif","enable":"contracts live in comment-only files */zz_contracts_verif.go starting with //go:build verif; the engine reads them by path and loads /repo without the tag (the production build)","baseline_off_cmd":"cd /repo && GOFLAGS=-mod=mod GOPROXY=off GOSUMDB=off GOTOOLCHAIN=local go test -vet=off -count=1 ./...","source_commits":hooks_commits(),"add_only":True},
 "engines":[{"name":"vcgo","path":"/verif/engine","serves_properties":sorted(claimed.keys()),"kind_free_text":"contract-based deductive verifier for a Go subset: weakest-precondition style VC generation over go/ssa of /repo's working tree, contracts in guarded comment files, obligations discharged by z3 5.1.0 / cvc5 1.0.3"}],
 "checks":[], "not_applicable":[]}
for pid in ids:
    if pid in claimed:
        c=claimed[pid]
        m["checks"].append({"property_id":pid,"quick_cmd":"./check %s --tier quick"%pid,"thorough_cmd":"./check %s --tier thorough"%pid,
          "evidence_file":"/verif/evidence/%s.json"%pid,"engine":"vcgo",
          "level_claimed":{"category":c.get("category","proof"),"text":c["text"],"design_ref":c.get("design_ref","DESIGN.md §6 "+pid)},
          "level_note":c["note"],"technique":c.get("technique","contract-based deductive verification: requires/ensures/loop invariants on the real Go functions, VCs generated from go/ssa, discharged by SMT (z3/cvc5)")})
    else:
        na=json.load(open('/verif/tools/not_applicable.json'))
        m["not_applicable"].append({"property_id":pid,"reason":na.get(pid,"check not built yet in this session (engine under construction); see DESIGN.md")})
json.dump(m,open('/verif/MANIFEST.json','w'),indent=1)
print("checks:",[c["property_id"] for c in m["checks"]])
