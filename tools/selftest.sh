#!/bin/sh
# Must-fail corpus: applies each /verif/selftest/<prop>__<name>.patch to /repo's working tree,
# runs the property's quick check, expects exit 1, and restores the tree.
# usage: tools/selftest.sh [pattern]
cd "$(dirname "$0")/.."
pat="${1:-}"
ok=0; bad=0
for p in "$PWD"/selftest/*${pat}*.patch; do
  [ -f "$p" ] || continue
  prop=$(basename "$p" | sed 's/__.*//')
  if ! git -C /repo apply --check "$p" 2>/dev/null; then echo "SKIP  $p (does not apply)"; continue; fi
  git -C /repo apply "$p"
  out=$(VERIF_NO_EVIDENCE=1 ./check "$prop" 2>&1); rc=$?
  git -C /repo apply -R "$p"
  if [ $rc -eq 1 ]; then ok=$((ok+1)); echo "KILLED   $p  by: $(echo "$out" | grep -o 'obligation=[^ ]*\|replay=[^ ]*' | head -2 | tr '\n' ' ')";
  else bad=$((bad+1)); echo "SURVIVED $p (rc=$rc)"; fi
done
echo "selftest: killed=$ok survived=$bad"
[ $bad -eq 0 ]
