#!/bin/sh
# Must-fail corpus: applies each /verif/selftest/<prop>__<name>.patch to a tree,
# runs the property's quick check on it, expects exit 1, and restores the tree.
# usage: tools/selftest.sh [pattern]
# By default the tree is /repo's working tree.  With SELFTEST_SCRATCH=1 the corpus runs on
# a scratch copy of /repo's working tree under /tmp (removed afterwards; REPO_DIR points the
# engine at it), so that /repo can be edited meanwhile; JOBS=n runs n patches in parallel,
# each on its own copy.
cd "$(dirname "$0")/.."
pat="${1:-}"
if [ -n "${SELFTEST_SCRATCH:-}" ]; then
  jobs="${JOBS:-1}"
  ls "$PWD"/selftest/*${pat}*.patch 2>/dev/null > /tmp/selftest.list.$$
  split -n "r/$jobs" /tmp/selftest.list.$$ /tmp/selftest.part.$$.
  for part in /tmp/selftest.part.$$.*; do
    (
      tree=$(mktemp -d /tmp/selftest.tree.XXXXXX)
      rsync -a --exclude .git /repo/ "$tree"/
      (cd "$tree" && git init -q . && git add -A >/dev/null 2>&1 && git -c user.email=x -c user.name=x commit -qm base >/dev/null 2>&1)
      while read -r p; do
        prop=$(basename "$p" | sed 's/__.*//')
        if ! git -C "$tree" apply --check "$p" 2>/dev/null; then echo "SKIP  $p (does not apply)"; continue; fi
        git -C "$tree" apply "$p"
        out=$(REPO_DIR="$tree" VERIF_NO_EVIDENCE=1 ./check "$prop" 2>&1); rc=$?
        git -C "$tree" apply -R "$p"
        if [ $rc -eq 1 ]; then echo "KILLED   $p  by: $(echo "$out" | grep -o 'obligation=[^ ]*\|replay=[^ ]*' | head -2 | tr '\n' ' ')";
        else echo "SURVIVED $p (rc=$rc)"; fi
      done < "$part"
      rm -rf "$tree" "$part"
    ) &
  done
  wait
  rm -f /tmp/selftest.list.$$
  exit 0
fi
ok=0; bad=0
for p in "$PWD"/selftest/*${pat}*.patch; do
  [ -f "$p" ] || continue
  prop=$(basename "$p" | sed 's/__.*//')
  if ! git -C /repo apply --check "$p" 2>/dev/null; then echo "SKIP  $p (does not apply)"; continue; fi
  git -C /repo apply "$p"
  out=$(VERIF_NO_EVIDENCE=1 ./check "$prop" 2>&1); rc=$?
  git -C /repo apply -R "$p"
  if [ $rc -eq 1 ]; then ok=$((ok+1)); echo "KILLED   $p  by: $(echo "$out" | grep -o 'obligation=[^ ]*\|replay=[^ ]*' | head -2 | tr '\n' ' ')";
  else bad=$((bad+1)); echo "SURVIVED $p (rc=$rc)"; fi
done
echo "selftest: killed=$ok survived=$bad"
[ $bad -eq 0 ]
