#!/bin/bash
# usage: tools/eval_harmless.sh <patch> : applies a (supposedly behaviour-preserving) patch to a scratch copy of
# /repo's working tree and runs EVERY property's quick check on it; prints one line per property that alarms.
cd "$(dirname "$0")/.."
p=$(readlink -f "$1")
tree=$(mktemp -d /tmp/harmless.tree.XXXXXX)
rsync -a --exclude .git /repo/ "$tree"/
(cd "$tree" && git init -q . && git add -A >/dev/null 2>&1 && git -c user.email=x -c user.name=x commit -qm base >/dev/null 2>&1)
if ! git -C "$tree" apply "$p" 2>/dev/null; then echo "SKIP $p (does not apply)"; rm -rf "$tree"; exit 0; fi
alarms=0
for i in 01 02 03 04 05 06 07 08 09 10 11 12 13 14 15 16 17 18; do
  out=$(REPO_DIR="$tree" VERIF_NO_EVIDENCE=1 ./check "C$i" 2>&1); rc=$?
  if [ $rc -ne 0 ]; then alarms=$((alarms+1)); echo "ALARM $p C$i rc=$rc $(echo "$out" | grep VIOLATION | head -3 | cut -c1-260 | tr '\n' ' ')"; fi
  echo "$out" | grep "no longer attach\|loop invariants no longer" | sed "s|^|NOTE $p C$i |" | cut -c1-260
done
[ $alarms -eq 0 ] && echo "QUIET $p"
rm -rf "$tree"
