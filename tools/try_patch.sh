#!/bin/bash
# usage: tools/try_patch.sh <patch> <func,func,...|property-id>
# Applies a patch to a scratch copy of /repo's working tree (removed afterwards) and runs
# `vcgo verify --func` (or `./check <id>` when given a property id) against it.
cd "$(dirname "$0")/.."
export GOFLAGS=-mod=mod GOPROXY=off GOSUMDB=off GOTOOLCHAIN=local
tree=$(mktemp -d /tmp/try.tree.XXXXXX)
rsync -a --exclude .git /repo/ "$tree"/
(cd "$tree" && git init -q . && git add -A >/dev/null 2>&1 && git -c user.email=x -c user.name=x commit -qm base >/dev/null 2>&1)
if ! git -C "$tree" apply "$(readlink -f "$1")"; then echo "patch does not apply"; rm -rf "$tree"; exit 2; fi
case "$2" in
  C[0-9][0-9]) REPO_DIR="$tree" VERIF_NO_EVIDENCE=1 ./check "$2" 2>&1 | grep -v UNDECIDED | tail -6 ;;
  *) REPO_DIR="$tree" bin/vcgo verify --func "$2" 2>&1 | tail -8 ;;
esac
rm -rf "$tree"
