#!/usr/bin/env python3
# Prints the markdown table of stored seeded changes (DESIGN.md I.6) from seeded/*/meta.json.
import json,glob,os,re
why={
'C01-m2':'fork expansion (expandForkFromObj) not under contract',
'C01-m3':'ForkId.Match not under contract (only Matches/matchPart are abstracted)',
'C02-m1':'contract for setPrenode removed (map aliasing, see I.3)',
'C03-m1':'static fork enumeration (expandStaticForkPart) not under contract',
'C05-m1':'resets not under contract (history property)',
'C05-m2':'restore of dynamic forks not under contract',
'C07-m2':'RefExp.resolveType not under contract (the clause needs the value of a local at the return; tried)',
'C09-m2':'comment placement not under contract',
'C09-m4':'comment placement not under contract',
'C10-m2':'sort.Slice is trusted to sort; comparator consistency is not an obligation',
'C12-m2':'liveness; only safety invariants are stated',
'C13-m1':'file-system behaviour not modelled',
'C14-m2':'file system not modelled',
'C14-m3':'"every finished consumer is handed over" needs an existential loop invariant the solvers do not decide (tried, removed)',
'C04-m3':'body of vdrKill is trusted (only its call protocol is under contract)',
'C15-m2':'lock clause (histories) not under contract',
'C16-m1':'struct/map decision: the recursive argument of fixExpressionTypes cannot be pinned by ghost events that later calls overwrite (tried)',
'C17-m1':'JSON well-formedness of rebuilt objects not under contract',
'C17-m2':'float64/int64 conversion is not modelled (reals)',
'C18-m2':'script assembly not under contract',
'C18-m4':'script assembly (jobScript) not under contract',
'C03-m4':'static fork enumeration (expandStaticForkPart) not under contract',
'C05-m4':'Metadata.restartLocal not under contract (process liveness is OS state)',
'C06-m4':'Metadata.checkedReset not under contract',
'C07-m3':'fieldType not under contract',
'C08-m4':'include processing (getIncludes) not under contract: termination over the include graph',
'C13-m3':'Fork.postProcess not under contract (file system)',
'C13-m4':'StructType.compile not under contract (duplicate output names)',
'C17-m3':'JSON well-formedness of rebuilt objects not under contract',
'C17-m4':'core.resolvePath not under contract',
'C07-m5':'MergeMapCallSources (merging of split-source sets) not under contract',
'C09-m5':'CallStm.format: the appended modifier binding passes through sort.Slice, whose effect on the list is modelled as a havoc (tried)',
'C13-m6':'order of file-system probes in moveOutFile (needs a crash between rename and record): file system not modelled',
'C16-m6':'IncludeFilePath (path-prefix logic over MROPATH) not under contract',
'C01-m8':'TopNode.resolveSplit not under contract',
'C02-m8':'makeUniquifier is a trusted event (uniqueness of ids over wall-clock time is not modelled)',
'C04-m7':'getLogicalFileNames: symlink resolution, file system not modelled',
'C14-m7':'getLogicalFileNames: symlink resolution, file system not modelled',
'C07-m7':'BindStms.compileWildcard not under contract',
'C10-m8':'sort.Slice is trusted to sort; comparator consistency (strict weak order) is not an obligation',
'C14-m8':'Metadata.enumerateTemp / cleanSplitTemp: file system not modelled',
'C16-m8':'GetCallableFrom / IncludeFilePath (MROPATH layout) not under contract',
'C18-m8':'change is in a job template file (jobmanagers/*.template), not in Go code; templates are outside the contracts',

'C01-m9':'DisabledExp.makeDisabledExp (which nested disable controls are the same) not under contract',
'C01-m10':'MergeExp.BindingPath (restoring the shared fork map after a static merge) not under contract',
'C03-m10':'getUnknownLength (length of a run-time array from its raw JSON) not under contract',
'C04-m9':'getMaybeFileNames (which JSON strings name files) not under contract',
'C05-m9':'Fork.restartLocalJobs not under contract (which chunk jobs are reset on a local restart)',
'C06-m9':'Metadata.endRefresh / failNotRunning: the not-running marker and its grace period are wall-clock state',
'C06-m10':'Chunk.verifyOutput has only its event contract; which stages are validated at all is not stated',
'C07-m9':'StructType.CheckEqual (equality of two definitions of one struct name) not under contract',
'C07-m10':'Pipeline.directDepsMap (dependency edges through split references) not under contract; topoSort is verified relative to the map it is given',
'C08-m9':'CallStm.checkBindingMap is not in the no-panic sweep (compile phase); only the lexer/parser carriers are',
'C09-m9':'BindStm.format: comment printing for the bound expression is not under contract',
'C09-m10':'formatGB (mem_gb / vmem_gb text) not under contract',
'C10-m10':'the comparator stays a strict weak order; that tied elements are equal is not an obligation (see comparator obligations)',
'C11-m9':'Chunk.updateState has a routing contract only; it does not state that the uniquifier passed on is the one parsed from the journal name',
'C11-m10':'NewMetadataRunWithJournalPath (job-side journal name) not under contract',
'C12-m9':'RemoteJobManager.reattach: blocking acquire before the run loop exists is a liveness property',
'C12-m10':'LocalJobManager.Enqueue: float64 centicore arithmetic is not modelled (reals)',
'C13-m9':'moveOutFiles is a trusted contract (file system)',
'C13-m10':'moveOutArrayDir is a trusted contract (file system)',
'C14-m10':'Fork.updateParamFileCache (dropping stale keep-alive arguments from the cache) not under contract',
'C16-m9':'possibleStructType (struct or typed map for an unresolved type name) not under contract',
'C17-m9':'StructType.FilterJson: only the null clause is stated; "different iff some member changed" needs the member loop invariant',
'C18-m9':'verifyJobManager edits the job template text; templates are outside the contracts',
'C18-m10':'change is in a job template file (jobmanagers/*.template), not in Go code',
}
rows=[]
for d in sorted(glob.glob('/verif/seeded/*'),key=lambda x:(os.path.basename(x).split('-')[0],int(os.path.basename(x).split('-m')[1]))):
    n=os.path.basename(d); m=json.load(open(d+'/meta.json'))
    fn=(m.get('functions') or ['?'])[0]
    ob=''
    co=open(d+'/check_output.txt').read() if os.path.exists(d+'/check_output.txt') else ''
    mm=re.search(r'obligation=(\S+)',co)
    if mm: ob=mm.group(1)
    elif 'replay=' in co: ob=os.path.basename(co.split('replay=')[1].split()[0]).replace('.json','')
    s=(m.get('summary') or '').split('. ')[0][:110].replace('|','/')
    if m['detected_by_check']:
        rows.append('| %s | %s: %s | %s | |'%(n,fn,s,ob))
    else:
        rows.append('| %s | %s: %s | — | %s |'%(n,fn,s,why.get(n,'function not under contract')))
det=sum(1 for r in rows if '| — |' not in r)
print('| seeded change | target: what was changed | caught by (first failing obligation) | missed because |\n|---|---|---|---|')
print('\n'.join(rows))
print('\n%d of %d confirmed seeded changes are caught.'%(det,len(rows)))
