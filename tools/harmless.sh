#!/bin/sh
# Must-pass corpus: harmless edits (renamed locals, ...) in /verif/selftest/harmless/<prop>__<name>.patch
# are applied to a scratch copy of /repo's working tree; the property's quick check must exit 0.
cd "$(dirname "$0")/.."
bad=0
for p in "$PWD"/selftest/harmless/*.patch; do
  [ -f "$p" ] || continue
  prop=$(basename "$p" | sed 's/__.*//')
  tree=$(mktemp -d /tmp/harmless.tree.XXXXXX)
  rsync -a --exclude .git /repo/ "$tree"/
  (cd "$tree" && git init -q . && git add -A >/dev/null 2>&1 && git -c user.email=x -c user.name=x commit -qm base >/dev/null 2>&1)
  if ! git -C "$tree" apply "$p" 2>/dev/null; then echo "SKIP $p (does not apply)"; rm -rf "$tree"; continue; fi
  out=$(REPO_DIR="$tree" VERIF_NO_EVIDENCE=1 ./check "$prop" 2>&1); rc=$?
  rm -rf "$tree"
  if [ $rc -eq 0 ]; then echo "QUIET   $p"; else bad=$((bad+1)); echo "ALARM   $p (rc=$rc) $(echo "$out" | grep VIOLATION | head -2)"; fi
done
[ $bad -eq 0 ]
