#!/bin/bash
# Re-runs the property check of every stored seeded change against the current checks
# (the changes were confirmed when they were stored) and updates detected_by_check /
# check_output.txt.  usage: [JOBS=n] tools/reeval_seeds.sh [pattern]
# Each job works on its own scratch copy of /repo's working tree under /tmp (removed
# afterwards); the engine is pointed at it through REPO_DIR, /repo itself is not touched.
cd "$(dirname "$0")/.."
jobs="${JOBS:-3}"
ls -d seeded/*${1:-}*/ 2>/dev/null | sed 's:/$::' > /tmp/reeval.list.$$
split -n "r/$jobs" /tmp/reeval.list.$$ /tmp/reeval.part.$$.
for part in /tmp/reeval.part.$$.*; do
  (
    tree=$(mktemp -d /tmp/reeval.tree.XXXXXX)
    rsync -a --exclude .git /repo/ "$tree"/
    (cd "$tree" && git init -q . && git add -A >/dev/null 2>&1 && git -c user.email=x -c user.name=x commit -qm base >/dev/null 2>&1)
    while read -r d; do
      id=$(basename "$d" | sed 's/-.*//')
      [ -f "$d/patch.diff" ] || continue
      if ! git -C "$tree" apply --check "$PWD/$d/patch.diff" 2>/dev/null; then echo "SKIP $d (does not apply)"; continue; fi
      git -C "$tree" apply "$PWD/$d/patch.diff"
      out=$(REPO_DIR="$tree" VERIF_NO_EVIDENCE=1 ./check "$id" 2>&1); rc=$?
      git -C "$tree" apply -R "$PWD/$d/patch.diff"
      echo "$out" | grep -E "VIOLATION|discharged" | head -4 > "$d/check_output.txt"
      python3 - "$d" "$rc" <<PY
import json,sys
d,rc=sys.argv[1],int(sys.argv[2])
m=json.load(open(d+'/meta.json')); m['check_exit_code']=rc; m['detected_by_check']=(rc==1)
json.dump(m,open(d+'/meta.json','w'),indent=1)
print(d, 'detected' if rc==1 else 'missed')
PY
    done < "$part"
    rm -rf "$tree" "$part"
  ) &
done
wait
rm -f /tmp/reeval.list.$$
