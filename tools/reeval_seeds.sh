#!/bin/bash
# Re-runs the property check of every stored seeded change against the current checks
# (the changes were confirmed when they were stored) and updates detected_by_check /
# check_output.txt.  usage: tools/reeval_seeds.sh [pattern]
cd "$(dirname "$0")/.."
for d in seeded/*${1:-}*/; do
  d=${d%/}; id=$(basename "$d" | sed 's/-.*//')
  [ -f "$d/patch.diff" ] || continue
  if ! git -C /repo apply --check "$PWD/$d/patch.diff" 2>/dev/null; then echo "SKIP $d (does not apply)"; continue; fi
  git -C /repo apply "$PWD/$d/patch.diff"
  out=$(VERIF_NO_EVIDENCE=1 ./check "$id" 2>&1); rc=$?
  git -C /repo apply -R "$PWD/$d/patch.diff"
  echo "$out" | grep -E "VIOLATION|discharged" | head -4 > "$d/check_output.txt"
  python3 - "$d" "$rc" <<PY
import json,sys
d,rc=sys.argv[1],int(sys.argv[2])
m=json.load(open(d+'/meta.json')); m['check_exit_code']=rc; m['detected_by_check']=(rc==1)
json.dump(m,open(d+'/meta.json','w'),indent=1)
print(d, 'detected' if rc==1 else 'missed')
PY
done
