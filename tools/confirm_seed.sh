#!/bin/bash
# usage: tools/confirm_seed.sh <property> <mK> [srcdir] [name-to-store-under]
# Confirms a seeded change independently in a scratch worktree (outside /repo and
# /verif), then runs the property's quick check against it in /repo and records
# everything under /verif/seeded/<property>-<mK>/.
set -u
id="$1"; m="$2"; src="${3:-/tmp/seedout/$id/$m}"
export GOFLAGS=-mod=mod GOPROXY=off GOSUMDB=off GOTOOLCHAIN=local
name="${4:-$m}"
out=/verif/seeded/$id-$name
mkdir -p "$out"
cp "$src/patch.diff" "$out/patch.diff"
[ -f "$src/demo_test.go" ] && cp "$src/demo_test.go" "$out/demo_test.go"
[ -f "$src/demo.sh" ] && cp "$src/demo.sh" "$out/demo.sh"
cp "$src/meta.json" "$out/agent_meta.json" 2>/dev/null
wt=$(mktemp -d /tmp/confirm.XXXXXX); rmdir "$wt"
git -C /repo worktree add -q --detach "$wt" HEAD || exit 2
demo_dir=$(python3 -c "import json;print(json.load(open('$src/meta.json')).get('demo_dir','martian/core'))" 2>/dev/null || echo martian/core)
demo_run=$(python3 -c "import json;print(json.load(open('$src/meta.json')).get('demo_run',''))" 2>/dev/null)
[ -z "$demo_run" ] && demo_run="go test -vet=off -count=1 -run TestZZ ./$demo_dir/"
run_demo() { (cd "$wt" && if [ -f "$src/demo_test.go" ]; then cp "$src/demo_test.go" "$demo_dir/zz_demo_test.go"; fi; timeout 300 bash -c "$demo_run" >/tmp/confirm_demo.log 2>&1; rc=$?; rm -f "$demo_dir/zz_demo_test.go"; exit $rc); }
run_demo; demo_clean=$?
applies=0
if ! (cd "$wt" && git apply "$src/patch.diff" 2>/dev/null); then
  # the change was written against an earlier commit: re-apply with fuzz and regenerate the diff
  (cd "$wt" && patch -p1 -F3 -s --no-backup-if-mismatch -r /dev/null < "$src/patch.diff" >/dev/null 2>&1)
  (cd "$wt" && find . -name '*.orig' -delete -o -name '*.rej' -delete)
  if [ -n "$(cd "$wt" && git diff --stat)" ]; then
    # hunks that only touched text already changed by a fix: commit (typically a comment) are dropped
    cp "$src/patch.diff" "$out/patch.orig.diff"
    (cd "$wt" && git diff) > "$out/patch.diff"
  else
    (cd "$wt" && git checkout -q -- . && git clean -fdq)
    applies=1
  fi
fi
builds=1; suite=1; demo_patched=0
if [ $applies -eq 0 ]; then
  (cd "$wt" && go build ./... >/dev/null 2>&1); builds=$?
  (cd "$wt" && go test -vet=off -count=1 ./... >/tmp/confirm_suite.log 2>&1); suite=$?
  if [ $suite -ne 0 ]; then (cd "$wt" && go test -vet=off -count=1 ./... >/tmp/confirm_suite.log 2>&1); suite=$?; fi
  run_demo; demo_patched=$?
fi
git -C /repo worktree remove --force "$wt"
# our check against the change, in /repo itself
chk_rc=-1; chk_out=""
if [ $applies -eq 0 ] && git -C /repo apply --check "$out/patch.diff" 2>/dev/null; then
  git -C /repo apply "$out/patch.diff"
  chk_out=$(cd /verif && VERIF_NO_EVIDENCE=1 ./check "$id" 2>&1); chk_rc=$?
  git -C /repo apply -R "$out/patch.diff"
fi
python3 - "$id" "$m" "$demo_clean" "$applies" "$builds" "$suite" "$demo_patched" "$chk_rc" "$name" <<EOF
import json,sys
id,m,demo_clean,applies,builds,suite,demo_patched,chk_rc,name=sys.argv[1:10]
agent={}
try: agent=json.load(open('/verif/seeded/%s-%s/agent_meta.json'%(id,name)))
except Exception: pass
out=open('/dev/stdin').read() if False else ''
meta={"property":id,"change":name,"summary":agent.get("summary"),"functions":agent.get("functions"),"needs_to_manifest":agent.get("needs"),
 "confirmed":{"demo_passes_on_unchanged_tree":demo_clean=="0","patch_applies":applies=="0","builds":builds=="0","existing_suite_passes_with_change":suite=="0","demo_fails_with_change":demo_patched!="0"},
 "ran":["scratch worktree of /repo HEAD under /tmp (removed afterwards)","demo: "+str(agent.get("demo_run")),"suite: go test -vet=off -count=1 ./...","check: git -C /repo apply patch.diff; ./check %s; git -C /repo apply -R patch.diff"%id],
 "check_exit_code":int(chk_rc),"detected_by_check":chk_rc=="1"}
json.dump(meta,open('/verif/seeded/%s-%s/meta.json'%(id,name),'w'),indent=1)
print(id,m,"valid=",all(meta["confirmed"].values()),"detected=",meta["detected_by_check"])
EOF
echo "$chk_out" | grep -E "VIOLATION|discharged" | head -4 > "$out/check_output.txt"
