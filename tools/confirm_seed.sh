#!/bin/bash
# usage: tools/confirm_seed.sh <property> <mK> [srcdir] [name-to-store-under]
# Confirms a seeded change independently in a scratch worktree (outside /repo and
# /verif), then runs the property's quick check against it (engine pointed at the scratch
# tree through REPO_DIR, with /repo's current contract files copied in) and records
# everything under /verif/seeded/<property>-<name>/.  Safe to run several at once.
set -u
id="$1"; m="$2"; src="${3:-/tmp/seedout/$id/$m}"
export GOFLAGS=-mod=mod GOPROXY=off GOSUMDB=off GOTOOLCHAIN=local
name="${4:-$m}"
out=/verif/seeded/$id-$name
mkdir -p "$out"
cp "$src/patch.diff" "$out/patch.diff"
[ -f "$src/demo_test.go" ] && cp "$src/demo_test.go" "$out/demo_test.go"
[ -f "$src/demo.sh" ] && cp "$src/demo.sh" "$out/demo.sh"
cp "$src/meta.json" "$out/agent_meta.json" 2>/dev/null
wt=$(mktemp -d /tmp/confirm.XXXXXX); rmdir "$wt"
log=$(mktemp /tmp/confirmlog.XXXXXX)
git -C /repo worktree add -q --detach "$wt" HEAD || exit 2
demo_dir=$(python3 -c "import json;print(json.load(open('$src/meta.json')).get('demo_dir','martian/core'))" 2>/dev/null || echo martian/core)
demo_run=$(python3 -c "import json;print(json.load(open('$src/meta.json')).get('demo_run',''))" 2>/dev/null)
[ -z "$demo_run" ] && demo_run="go test -vet=off -count=1 -run TestZZ ./$demo_dir/"
run_demo() { (cd "$wt" && if [ -f "$src/demo_test.go" ]; then cp "$src/demo_test.go" "$demo_dir/zz_demo_test.go"; fi; timeout 600 bash -c "$demo_run" >"$log" 2>&1; rc=$?; rm -f "$demo_dir/zz_demo_test.go"; exit $rc); }
run_demo; demo_clean=$?
applies=0
if ! (cd "$wt" && git apply "$src/patch.diff" 2>/dev/null); then
  # the change was written against an earlier commit: re-apply with fuzz and regenerate the diff
  (cd "$wt" && patch -p1 -F3 -s --no-backup-if-mismatch -r /dev/null < "$src/patch.diff" >/dev/null 2>&1)
  (cd "$wt" && find . -name '*.orig' -delete -o -name '*.rej' -delete)
  if [ -n "$(cd "$wt" && git diff --stat)" ]; then
    cp "$src/patch.diff" "$out/patch.orig.diff"
    (cd "$wt" && git diff) > "$out/patch.diff"
  else
    (cd "$wt" && git checkout -q -- . && git clean -fdq)
    applies=1
  fi
fi
builds=1; suite=1; demo_patched=0
chk_rc=-1; chk_out=""
if [ $applies -eq 0 ]; then
  (cd "$wt" && go build ./... >/dev/null 2>&1); builds=$?
  (cd "$wt" && go test -vet=off -count=1 ./... >"$log.suite" 2>&1); suite=$?
  if [ $suite -ne 0 ]; then (cd "$wt" && go test -vet=off -count=1 ./... >"$log.suite" 2>&1); suite=$?; fi
  run_demo; demo_patched=$?
  # our check against the change: the scratch tree with /repo's current contract files
  for f in $(cd /repo && ls martian/*/zz_contracts_verif.go cmd/*/zz_contracts_verif.go 2>/dev/null); do cp "/repo/$f" "$wt/$f"; done
  chk_out=$(cd /verif && REPO_DIR="$wt" VERIF_NO_EVIDENCE=1 ./check "$id" 2>&1); chk_rc=$?
fi
git -C /repo worktree remove --force "$wt"
python3 - "$id" "$m" "$demo_clean" "$applies" "$builds" "$suite" "$demo_patched" "$chk_rc" "$name" <<EOF
import json,sys
id,m,demo_clean,applies,builds,suite,demo_patched,chk_rc,name=sys.argv[1:10]
agent={}
try: agent=json.load(open('/verif/seeded/%s-%s/agent_meta.json'%(id,name)))
except Exception: pass
meta={"property":id,"change":name,"summary":agent.get("summary"),"functions":agent.get("functions"),"needs_to_manifest":agent.get("needs"),
 "confirmed":{"demo_passes_on_unchanged_tree":demo_clean=="0","patch_applies":applies=="0","builds":builds=="0","existing_suite_passes_with_change":suite=="0","demo_fails_with_change":demo_patched!="0"},
 "ran":["scratch worktree of /repo HEAD under /tmp (removed afterwards)","demo: "+str(agent.get("demo_run")),"suite: go test -vet=off -count=1 ./...","check: ./check %s with the engine pointed at the scratch worktree carrying the change (REPO_DIR)"%id],
 "check_exit_code":int(chk_rc),"detected_by_check":chk_rc=="1"}
json.dump(meta,open('/verif/seeded/%s-%s/meta.json'%(id,name),'w'),indent=1)
print(id,name,"valid=",all(meta["confirmed"].values()),meta["confirmed"],"detected=",meta["detected_by_check"])
EOF
echo "$chk_out" | grep -E "VIOLATION|discharged" | head -4 > "$out/check_output.txt"
rm -f "$log" "$log.suite"
