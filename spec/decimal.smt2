;; Decimal numerals: decval(a, o, k) is the value of the k ASCII digits a[o], ..., a[o+k-1]
;; read as a decimal numeral (most significant digit first).  Defined by its recurrence
;; (axioms; every loop invariant advances k by one, so the solver needs no induction).
(declare-fun decval ((Array Int Int) Int Int) Int)
(assert (forall ((a (Array Int Int)) (o Int)) (! (= (decval a o 0) 0) :pattern ((decval a o 0)))))
(assert (forall ((a (Array Int Int)) (o Int) (k Int))
  (! (=> (>= k 0) (= (decval a o (+ k 1)) (+ (* 10 (decval a o k)) (- (select a (+ o k)) 48))))
     :pattern ((decval a o k)))))
