;; Contract-level model of unicode/utf8 decoding/encoding (trusted; validated
;; against the real package in the thorough tier).
(declare-fun utf8_r ((Array Int Int) Int Int) Int)   ; rune decoded at offset o of a string with n bytes left
(declare-fun utf8_w ((Array Int Int) Int Int) Int)   ; its width
(define-fun utf8_len ((r Int)) Int                     ; encoded length of a rune, as utf8.EncodeRune writes it
  (ite (and (<= 0 r) (< r 128)) 1
  (ite (and (<= 128 r) (< r 2048)) 2
  (ite (or (< r 0) (> r 1114111) (and (<= 55296 r) (<= r 57343))) 3   ; invalid runes are written as U+FFFD
  (ite (< r 65536) 3 4)))))
(declare-fun utf8_enc (Int Int) Int)                  ; i-th byte of the encoding
(declare-fun validUTF8 ((Array Int Int) Int Int) Bool)
(define-fun utf8_RuneError () Int 65533)
(assert (forall ((a (Array Int Int)) (o Int) (n Int))
  (! (=> (> n 0)
      (and (>= (utf8_w a o n) 1) (<= (utf8_w a o n) 4) (<= (utf8_w a o n) n)
           (>= (utf8_r a o n) 0) (<= (utf8_r a o n) 1114111)
           (=> (< (select a o) 128) (and (= (utf8_r a o n) (select a o)) (= (utf8_w a o n) 1)))
           (=> (>= (select a o) 128) (>= (utf8_r a o n) 128))
           (=> (> (utf8_w a o n) 1)
               (and (= (utf8_len (utf8_r a o n)) (utf8_w a o n))
                    (= (utf8_enc (utf8_r a o n) 0) (select a o)) (>= (select a o) 128)
                    (= (utf8_enc (utf8_r a o n) 1) (select a (+ o 1))) (>= (select a (+ o 1)) 128)
                    (=> (> (utf8_w a o n) 2) (and (= (utf8_enc (utf8_r a o n) 2) (select a (+ o 2))) (>= (select a (+ o 2)) 128)))
                    (=> (> (utf8_w a o n) 3) (and (= (utf8_enc (utf8_r a o n) 3) (select a (+ o 3))) (>= (select a (+ o 3)) 128)))))
           (=> (= (utf8_w a o n) 1) (or (< (select a o) 128) (= (utf8_r a o n) 65533)))))
     :pattern ((utf8_w a o n)))))
(assert (forall ((a (Array Int Int)) (o Int) (n Int))
  (! (=> (and (validUTF8 a o n) (> n 0))
      (and (not (and (= (utf8_r a o n) 65533) (= (utf8_w a o n) 1)))
           (validUTF8 a (+ o (utf8_w a o n)) (- n (utf8_w a o n)))))
     :pattern ((validUTF8 a o n)))))
