;; POSIX shell scanner for one double-quoted word (IEEE Std 1003.1, XCU 2.2.3).
;; Specification, written from the standard, not from the code under test.
;; States.
(define-fun shdq_START () Int 0)
(define-fun shdq_DQ () Int 1)
(define-fun shdq_ESC () Int 2)
(define-fun shdq_DONE () Int 3)
(define-fun shdq_REJECT () Int 4)
;; bytes that keep their backslash-escape meaning inside double quotes: $ ` " \   (newline: line continuation)
(define-fun shdq_special ((b Int)) Bool (or (= b 36) (= b 96) (= b 34) (= b 92)))
(define-fun shdq_next ((q Int) (b Int)) Int
  (ite (= q 0) (ite (= b 34) 1 4)
  (ite (= q 1) (ite (= b 34) 3 (ite (= b 92) 2 (ite (or (= b 36) (= b 96) (= b 0)) 4 1)))
  (ite (= q 2) (ite (= b 0) 4 1)
  4))))
;; number of bytes the shell delivers to the word for this input byte
(define-fun shdq_nemit ((q Int) (b Int)) Int
  (ite (= q 1) (ite (or (= b 34) (= b 92) (= b 36) (= b 96) (= b 0)) 0 1)
  (ite (= q 2) (ite (shdq_special b) 1 (ite (= b 10) 0 (ite (= b 0) 0 2)))
  0)))
(define-fun shdq_e1 ((q Int) (b Int)) Int
  (ite (= q 1) b (ite (= q 2) (ite (shdq_special b) b 92) 0)))
(define-fun shdq_e2 ((q Int) (b Int)) Int b)
