;; Sums over the elements of a slice of pointers: sumPtr(p, o, f, k) is the sum of
;; f[p[o+i]] for i < k, where a nil pointer contributes 0.  Defined by its
;; recurrence (axioms; the solver never needs induction: every loop invariant
;; advances k by one).
(declare-fun sumPtr ((Array Int Int) Int (Array Int Int) Int) Int)
(assert (forall ((p (Array Int Int)) (o Int) (f (Array Int Int))) (! (= (sumPtr p o f 0) 0) :pattern ((sumPtr p o f 0)))))
(assert (forall ((p (Array Int Int)) (o Int) (f (Array Int Int)) (k Int))
  (! (=> (>= k 0) (= (sumPtr p o f (+ k 1))
        (+ (sumPtr p o f k) (ite (= (select p (+ o k)) 0) 0 (select f (select p (+ o k)))))))
     :pattern ((sumPtr p o f k)))))

;; cntB(t, p, o, k): the number of i < k with t[p[o+i]] true, where t is a table
;; (predicate over references) and p[o..] a slice of references.  Recurrence axioms,
;; plus the bound 0 <= cntB <= k (a consequence of the recurrence by induction, stated
;; as an axiom because the solver does no induction).
(declare-fun cntB ((Array Int Bool) (Array Int Int) Int Int) Int)
(assert (forall ((t (Array Int Bool)) (p (Array Int Int)) (o Int)) (! (= (cntB t p o 0) 0) :pattern ((cntB t p o 0)))))
(assert (forall ((t (Array Int Bool)) (p (Array Int Int)) (o Int) (k Int))
  (! (=> (>= k 0) (= (cntB t p o (+ k 1))
        (+ (cntB t p o k) (ite (select t (select p (+ o k))) 1 0))))
     :pattern ((cntB t p o k)))))
(assert (forall ((t (Array Int Bool)) (p (Array Int Int)) (o Int) (k Int))
  (! (=> (>= k 0) (and (<= 0 (cntB t p o k)) (<= (cntB t p o k) k)))
     :pattern ((cntB t p o k)))))
