;; Sums over the elements of a slice of pointers: sumPtr(p, o, f, k) is the sum of
;; f[p[o+i]] for i < k, where a nil pointer contributes 0.  Defined by its
;; recurrence (axioms; the solver never needs induction: every loop invariant
;; advances k by one).
(declare-fun sumPtr ((Array Int Int) Int (Array Int Int) Int) Int)
(assert (forall ((p (Array Int Int)) (o Int) (f (Array Int Int))) (! (= (sumPtr p o f 0) 0) :pattern ((sumPtr p o f 0)))))
(assert (forall ((p (Array Int Int)) (o Int) (f (Array Int Int)) (k Int))
  (! (=> (>= k 0) (= (sumPtr p o f (+ k 1))
        (+ (sumPtr p o f k) (ite (= (select p (+ o k)) 0) 0 (select f (select p (+ o k)))))))
     :pattern ((sumPtr p o f k)))))
