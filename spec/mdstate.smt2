;; State of one job's metadata directory as a function of the sentinel files
;; present (written from the property text / documentation): a failure marker
;; dominates completion; complete > disabled > log (running) > jobinfo (queued);
;; nothing at all = waiting ("" : the job has not been started).
(define-fun mdState ((c (Array String Bool))) String
  (ite (or (select c "errors") (select c "assert")) "failed"
  (ite (select c "complete") "complete"
  (ite (select c "disabled") "disabled"
  (ite (select c "log") "running"
  (ite (select c "jobinfo") "queued" ""))))))
