;; Map keys of interface type: a key is the pair (dynamic type tag, payload), packed into
;; one integer by an abstract bijection between Int x Int and Int (such bijections exist;
;; only bijectivity is used).  The nil interface is the pair (0, 0).
(declare-fun ikey (Int Int) Int)
(declare-fun ikey_tag (Int) Int)
(declare-fun ikey_pay (Int) Int)
(assert (forall ((t Int) (p Int)) (! (and (= (ikey_tag (ikey t p)) t) (= (ikey_pay (ikey t p)) p)) :pattern ((ikey t p)))))
(assert (forall ((k Int)) (! (= (ikey (ikey_tag k) (ikey_pay k)) k) :pattern ((ikey_tag k)) :pattern ((ikey_pay k)))))
