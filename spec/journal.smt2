;; Journal names of forks (property C11).  Written from the documentation of net/url.PathEscape
;; (RFC 3986 percent-encoding of a path segment) and of strings.Replacer, for map keys over the
;; alphabet {a-z, '_', '/', '%', '.'} (enough for a witness; the lemma quantifies over these keys):
;;   jpe(k)   what url.PathEscape does to such a key: '%' -> "%25", '/' -> "%2F" ('.', '_', letters kept)
;;   jid2(k1,k2)  the fork id of a fork with two map-key parts: "fork_" jpe(k1) "/" "fork_" jpe(k2)
;;   jenc(id) what strings.NewReplacer(".", "%2E", "/", "%2F").Replace(id) returns
(define-fun jkey ((k String)) Bool (str.in_re k (re.* (re.union (re.range "a" "z") (str.to_re "_") (str.to_re "/") (str.to_re "%") (str.to_re ".")))))
(define-fun jpe ((k String)) String (str.replace_all (str.replace_all k "%" "%25") "/" "%2F"))
(define-fun jid2 ((k1 String) (k2 String)) String (str.++ "fork_" (jpe k1) "/fork_" (jpe k2)))
(define-fun jenc ((id String)) String (str.replace_all (str.replace_all id "." "%2E") "/" "%2F"))
