;; requires: utf8
;; Decoder of one MRO string literal: the escapes admitted by the tokenizer's string
;; rule (tokenizer.go: standard escapes abfnrtv\", three octal digits, xHH, uHHHH,
;; UHHHHHHHH) with the meaning they have in Go string literals: \x and octal escapes
;; denote one byte, \u and \U a code point written in UTF-8 (RFC 3629), with U+FFFD for
;; surrogates and values above U+10FFFF.  Specification, written from the language
;; definition, not from unquoteBytes.
;; State q = kind + 32 * acc  (acc: digits accumulated so far).
(define-fun mrostr_START () Int 0)
(define-fun mrostr_RUN () Int 1)
(define-fun mrostr_ESC () Int 2)
(define-fun mrostr_DONE () Int 3)
(define-fun mrostr_REJECT () Int 4)
(define-fun mrostr_kind ((q Int)) Int (mod q 32))
(define-fun mrostr_acc ((q Int)) Int (div q 32))
(define-fun mrostr_hex ((b Int)) Int
  (ite (and (<= 48 b) (<= b 57)) (- b 48)
  (ite (and (<= 97 b) (<= b 102)) (- b 87)
  (ite (and (<= 65 b) (<= b 70)) (- b 55) (- 1)))))
(define-fun mrostr_oct ((b Int)) Int (ite (and (<= 48 b) (<= b 55)) (- b 48) (- 1)))
(define-fun mrostr_plain ((b Int)) Bool (and (not (= b 34)) (not (= b 92))))
;; simple escapes: the byte denoted by \c, or -1
(define-fun mrostr_simple ((b Int)) Int
  (ite (= b 97) 7 (ite (= b 98) 8 (ite (= b 102) 12 (ite (= b 110) 10 (ite (= b 114) 13
  (ite (= b 116) 9 (ite (= b 118) 11 (ite (= b 92) 92 (ite (= b 34) 34 (- 1)))))))))))
(define-fun mrostr_next ((q Int) (b Int)) Int
  (let ((k (mod q 32)) (a (div q 32)) (h (mrostr_hex b)) (o (mrostr_oct b)))
  (ite (= k 0) (ite (= b 34) 1 4)
  (ite (= k 1) (ite (= b 34) 3 (ite (= b 92) 2 (ite (mrostr_plain b) 1 4)))
  (ite (= k 2) (ite (>= (mrostr_simple b) 0) 1
               (ite (= b 120) 5 (ite (= b 117) 7 (ite (= b 85) 11
               (ite (>= o 0) (+ 19 (* 32 o)) 4)))))
  (ite (= k 5) (ite (>= h 0) (+ 6 (* 32 h)) 4)
  (ite (= k 6) (ite (>= h 0) 1 4)
  (ite (and (<= 7 k) (<= k 9)) (ite (>= h 0) (+ (+ k 1) (* 32 (+ (* 16 a) h))) 4)
  (ite (= k 10) (ite (>= h 0) 1 4)
  (ite (and (<= 11 k) (<= k 17)) (ite (>= h 0) (+ (+ k 1) (* 32 (+ (* 16 a) h))) 4)
  (ite (= k 18) (ite (>= h 0) 1 4)
  (ite (= k 19) (ite (>= o 0) (+ 20 (* 32 (+ (* 8 a) o))) 4)
  (ite (= k 20) (ite (and (>= o 0) (< (+ (* 8 a) o) 256)) 1 4)
  4)))))))))))))
;; the code point completed by the last hex digit of \u / \U, normalised as EncodeRune does
(define-fun mrostr_cp ((q Int) (b Int)) Int
  (let ((c (+ (* 16 (div q 32)) (mrostr_hex b))))
  (ite (or (> c 1114111) (and (<= 55296 c) (<= c 57343))) 65533 c)))
(define-fun mrostr_cplen ((c Int)) Int (ite (< c 128) 1 (ite (< c 2048) 2 (ite (< c 65536) 3 4))))
(define-fun mrostr_cpbyte ((c Int) (i Int)) Int
  (ite (< c 128) c
  (ite (< c 2048) (ite (= i 0) (+ 192 (div c 64)) (+ 128 (mod c 64)))
  (ite (< c 65536) (ite (= i 0) (+ 224 (div c 4096)) (ite (= i 1) (+ 128 (mod (div c 64) 64)) (+ 128 (mod c 64))))
       (ite (= i 0) (+ 240 (div c 262144)) (ite (= i 1) (+ 128 (mod (div c 4096) 64)) (ite (= i 2) (+ 128 (mod (div c 64) 64)) (+ 128 (mod c 64)))))))))
(define-fun mrostr_endsCP ((q Int) (b Int)) Bool
  (and (or (= (mod q 32) 10) (= (mod q 32) 18)) (>= (mrostr_hex b) 0)))
(define-fun mrostr_nemit ((q Int) (b Int)) Int
  (let ((k (mod q 32)))
  (ite (= k 1) (ite (mrostr_plain b) 1 0)
  (ite (= k 2) (ite (>= (mrostr_simple b) 0) 1 0)
  (ite (= k 6) (ite (>= (mrostr_hex b) 0) 1 0)
  (ite (mrostr_endsCP q b) (mrostr_cplen (mrostr_cp q b))
  (ite (= k 20) (ite (and (>= (mrostr_oct b) 0) (< (+ (* 8 (div q 32)) (mrostr_oct b)) 256)) 1 0)
  0)))))))
(define-fun mrostr_e1 ((q Int) (b Int)) Int
  (let ((k (mod q 32)))
  (ite (= k 1) b
  (ite (= k 2) (mrostr_simple b)
  (ite (= k 6) (+ (* 16 (div q 32)) (mrostr_hex b))
  (ite (mrostr_endsCP q b) (mrostr_cpbyte (mrostr_cp q b) 0)
  (ite (= k 20) (+ (* 8 (div q 32)) (mrostr_oct b))
  0)))))))
(define-fun mrostr_e2 ((q Int) (b Int)) Int (mrostr_cpbyte (mrostr_cp q b) 1))
(define-fun mrostr_e3 ((q Int) (b Int)) Int (mrostr_cpbyte (mrostr_cp q b) 2))
(define-fun mrostr_e4 ((q Int) (b Int)) Int (mrostr_cpbyte (mrostr_cp q b) 3))
;; RFC 3629: the bytes of the UTF-8 encoding of a valid code point (links the abstract
;; utf8_enc of the utf8 library to arithmetic)
(assert (forall ((r Int) (i Int))
  (! (=> (and (<= 0 r) (<= r 1114111) (not (and (<= 55296 r) (<= r 57343))) (<= 0 i) (< i (utf8_len r)))
         (= (utf8_enc r i) (mrostr_cpbyte r i)))
     :pattern ((utf8_enc r i)))))
