;; requires: utf8
;; Decoder of one MRO string literal: the escapes admitted by the tokenizer's string
;; rule (tokenizer.go: standard escapes abfnrtv\", three octal digits, xHH, uHHHH,
;; UHHHHHHHH) with the meaning they have in Go string literals: \x and octal escapes
;; denote one byte (three octal digits: the value modulo 256), \u and \U a code point
;; written in UTF-8 (RFC 3629), with U+FFFD for surrogates and values above U+10FFFF.
;; Specification, written from the language definition, not from unquoteBytes.
;;
;; The decoder state is (kind k, accumulator a).  Kinds:
;;   0 before the opening quote   1 inside the literal   2 after a backslash
;;   3 after the closing quote    4 reject
;;   5,6 \x digits   7..10 \u digits   11..18 \U digits   19,20 second/third octal digit
(define-fun mrostr_hex ((b Int)) Int
  (ite (and (<= 48 b) (<= b 57)) (- b 48)
  (ite (and (<= 97 b) (<= b 102)) (- b 87)
  (ite (and (<= 65 b) (<= b 70)) (- b 55) (- 1)))))
(define-fun mrostr_oct ((b Int)) Int (ite (and (<= 48 b) (<= b 55)) (- b 48) (- 1)))
(define-fun mrostr_plain ((b Int)) Bool (and (not (= b 34)) (not (= b 92))))
;; simple escapes: the byte denoted by \c, or -1
(define-fun mrostr_simple ((b Int)) Int
  (ite (= b 97) 7 (ite (= b 98) 8 (ite (= b 102) 12 (ite (= b 110) 10 (ite (= b 114) 13
  (ite (= b 116) 9 (ite (= b 118) 11 (ite (= b 92) 92 (ite (= b 34) 34 (- 1)))))))))))
;; next kind / next accumulator
(define-fun mrostr_nk ((k Int) (a Int) (b Int)) Int
  (let ((h (mrostr_hex b)) (o (mrostr_oct b)))
  (ite (= k 0) (ite (= b 34) 1 4)
  (ite (= k 1) (ite (= b 34) 3 (ite (= b 92) 2 1))
  (ite (= k 2) (ite (>= (mrostr_simple b) 0) 1
               (ite (= b 120) 5 (ite (= b 117) 7 (ite (= b 85) 11 (ite (>= o 0) 19 4)))))
  (ite (= k 5) (ite (>= h 0) 6 4)
  (ite (= k 6) (ite (>= h 0) 1 4)
  (ite (and (<= 7 k) (<= k 9)) (ite (>= h 0) (+ k 1) 4)
  (ite (= k 10) (ite (>= h 0) 1 4)
  (ite (and (<= 11 k) (<= k 17)) (ite (>= h 0) (+ k 1) 4)
  (ite (= k 18) (ite (>= h 0) 1 4)
  (ite (= k 19) (ite (>= o 0) 20 4)
  (ite (= k 20) (ite (>= o 0) 1 4)
  4)))))))))))))
(define-fun mrostr_na ((k Int) (a Int) (b Int)) Int
  (let ((h (mrostr_hex b)) (o (mrostr_oct b)))
  (ite (and (= k 2) (>= o 0) (< (mrostr_simple b) 0)) o
  (ite (and (= k 5) (>= h 0)) h
  (ite (and (or (and (<= 7 k) (<= k 9)) (and (<= 11 k) (<= k 17))) (>= h 0)) (+ (* 16 a) h)
  (ite (and (= k 19) (>= o 0)) (+ (* 8 a) o)
  0))))))
;; the code point completed by the last hex digit of \u / \U, normalised as EncodeRune does
(define-fun mrostr_cp ((a Int) (b Int)) Int
  (let ((c (+ (* 16 a) (mrostr_hex b))))
  (ite (or (> c 1114111) (and (<= 55296 c) (<= c 57343))) 65533 c)))
(define-fun mrostr_cplen ((c Int)) Int (ite (< c 128) 1 (ite (< c 2048) 2 (ite (< c 65536) 3 4))))
(define-fun mrostr_cpbyte ((c Int) (i Int)) Int
  (ite (< c 128) c
  (ite (< c 2048) (ite (= i 0) (+ 192 (div c 64)) (+ 128 (mod c 64)))
  (ite (< c 65536) (ite (= i 0) (+ 224 (div c 4096)) (ite (= i 1) (+ 128 (mod (div c 64) 64)) (+ 128 (mod c 64))))
       (ite (= i 0) (+ 240 (div c 262144)) (ite (= i 1) (+ 128 (mod (div c 4096) 64)) (ite (= i 2) (+ 128 (mod (div c 64) 64)) (+ 128 (mod c 64)))))))))
(define-fun mrostr_endsCP ((k Int) (b Int)) Bool
  (and (or (= k 10) (= k 18)) (>= (mrostr_hex b) 0)))
;; number of bytes decoded at this input byte, and those bytes
(define-fun mrostr_ne ((k Int) (a Int) (b Int)) Int
  (ite (= k 1) (ite (mrostr_plain b) 1 0)
  (ite (= k 2) (ite (>= (mrostr_simple b) 0) 1 0)
  (ite (= k 6) (ite (>= (mrostr_hex b) 0) 1 0)
  (ite (mrostr_endsCP k b) (mrostr_cplen (mrostr_cp a b))
  (ite (= k 20) (ite (>= (mrostr_oct b) 0) 1 0)
  0))))))
(define-fun mrostr_x1 ((k Int) (a Int) (b Int)) Int
  (ite (= k 1) b
  (ite (= k 2) (mrostr_simple b)
  (ite (= k 6) (+ (* 16 a) (mrostr_hex b))
  (ite (mrostr_endsCP k b) (mrostr_cpbyte (mrostr_cp a b) 0)
  (ite (= k 20) (mod (+ (* 8 a) (mrostr_oct b)) 256)
  0))))))
(define-fun mrostr_x2 ((k Int) (a Int) (b Int)) Int (mrostr_cpbyte (mrostr_cp a b) 1))
(define-fun mrostr_x3 ((k Int) (a Int) (b Int)) Int (mrostr_cpbyte (mrostr_cp a b) 2))
(define-fun mrostr_x4 ((k Int) (a Int) (b Int)) Int (mrostr_cpbyte (mrostr_cp a b) 3))

;; ---- the same decoder with the state packed into one integer q = k + 32 * a, as the
;; ghost monitor of the verifier wants it
(define-fun mrostr_START () Int 0)
(define-fun mrostr_RUN () Int 1)
(define-fun mrostr_ESC () Int 2)
(define-fun mrostr_DONE () Int 3)
(define-fun mrostr_REJECT () Int 4)
(define-fun mrostr_next ((q Int) (b Int)) Int
  (+ (mrostr_nk (mod q 32) (div q 32) b) (* 32 (mrostr_na (mod q 32) (div q 32) b))))
(define-fun mrostr_nemit ((q Int) (b Int)) Int (mrostr_ne (mod q 32) (div q 32) b))
(define-fun mrostr_e1 ((q Int) (b Int)) Int (mrostr_x1 (mod q 32) (div q 32) b))
(define-fun mrostr_e2 ((q Int) (b Int)) Int (mrostr_x2 (mod q 32) (div q 32) b))
(define-fun mrostr_e3 ((q Int) (b Int)) Int (mrostr_x3 (mod q 32) (div q 32) b))
(define-fun mrostr_e4 ((q Int) (b Int)) Int (mrostr_x4 (mod q 32) (div q 32) b))

;; RFC 3629: the bytes of the UTF-8 encoding of a valid code point (links the abstract
;; utf8_enc of the utf8 library to arithmetic); utf8.EncodeRune writes U+FFFD (EF BF BD)
;; for surrogates and values outside the Unicode range
(assert (forall ((r Int) (i Int))
  (! (=> (and (<= 0 r) (<= r 1114111) (not (and (<= 55296 r) (<= r 57343))) (<= 0 i) (< i (utf8_len r)))
         (= (utf8_enc r i) (mrostr_cpbyte r i)))
     :pattern ((utf8_enc r i)))))
(assert (forall ((r Int) (i Int))
  (! (=> (and (or (< r 0) (> r 1114111) (and (<= 55296 r) (<= r 57343))) (<= 0 i) (< i 3))
         (= (utf8_enc r i) (mrostr_cpbyte 65533 i)))
     :pattern ((utf8_enc r i)))))

;; ---- the decoder as functions of the interior of a literal (the n bytes between the
;; quotes, starting at offset o of array a), defined by recurrence over the number j of
;; bytes consumed, starting inside the literal:
;;   mrostr_runk / mrostr_runa : kind and accumulator after j bytes;
;;   mrostr_olen : number of bytes decoded so far;
;;   mrostr_dec  : the decoded bytes (position olen(j)+t holds the (t+1)-th byte decoded
;;                 at input byte j; positions are distinct because olen only grows).
(declare-fun mrostr_runk ((Array Int Int) Int Int Int) Int)
(declare-fun mrostr_runa ((Array Int Int) Int Int Int) Int)
(declare-fun mrostr_olen ((Array Int Int) Int Int Int) Int)
(declare-fun mrostr_dec ((Array Int Int) Int Int Int) Int)
(assert (forall ((a (Array Int Int)) (o Int) (n Int))
  (! (and (= (mrostr_runk a o n 0) 1) (= (mrostr_runa a o n 0) 0) (= (mrostr_olen a o n 0) 0)) :pattern ((mrostr_runk a o n 0)))))
(assert (forall ((a (Array Int Int)) (o Int) (n Int) (j Int))
  (! (=> (and (<= 0 j) (< j n))
      (let ((k (mrostr_runk a o n j)) (c (mrostr_runa a o n j)) (b (select a (+ o j))) (l (mrostr_olen a o n j)))
      (and (= (mrostr_runk a o n (+ j 1)) (mrostr_nk k c b))
           (= (mrostr_runa a o n (+ j 1)) (mrostr_na k c b))
           (= (mrostr_olen a o n (+ j 1)) (+ l (mrostr_ne k c b)))
           (>= l 0)
           (=> (>= (mrostr_ne k c b) 1) (= (mrostr_dec a o n l) (mrostr_x1 k c b)))
           (=> (>= (mrostr_ne k c b) 2) (= (mrostr_dec a o n (+ l 1)) (mrostr_x2 k c b)))
           (=> (>= (mrostr_ne k c b) 3) (= (mrostr_dec a o n (+ l 2)) (mrostr_x3 k c b)))
           (=> (>= (mrostr_ne k c b) 4) (= (mrostr_dec a o n (+ l 3)) (mrostr_x4 k c b))))))
     :pattern ((mrostr_runk a o n j)))))
;; a literal without backslash or quote inside denotes its own bytes (by induction over n
;; from the recurrence; stated as an axiom because the solver does no induction)
(assert (forall ((a (Array Int Int)) (o Int) (n Int))
  (! (=> (and (>= n 0) (forall ((j Int)) (=> (and (<= 0 j) (< j n)) (mrostr_plain (select a (+ o j))))))
         (and (= (mrostr_runk a o n n) 1) (= (mrostr_olen a o n n) n)
              (forall ((i Int)) (=> (and (<= 0 i) (< i n)) (= (mrostr_dec a o n i) (select a (+ o i)))))))
     :pattern ((mrostr_olen a o n n)) :pattern ((mrostr_runk a o n n)))))
