package syntax

import (
	"strings"
	"testing"
)

// fixIncludes sorts the include list with a comparator that is not a strict weak order:
// a file in the current directory ("c.mro", dir "") and a file in the root directory
// ("/a.mro", dir "/", length 1) compare as equivalent, although "x/b.mro" sorts after the
// second and before the first.  The needed files are appended in map order before the
// sort, so the resulting include order differs from run to run.
func TestZZDemoIncludeOrder(t *testing.T) {
	seen := map[string]int{}
	for n := 0; n < 200; n++ {
		src := &Ast{}
		needed := map[string]*SourceFile{
			"c.mro":   {FileName: "c.mro"},
			"/a.mro":  {FileName: "/a.mro"},
			"x/b.mro": {FileName: "x/b.mro"},
		}
		fixIncludes(src, needed, map[string]*SourceFile{}, nil)
		var names []string
		for _, inc := range src.Includes {
			names = append(names, inc.Value)
		}
		seen[strings.Join(names, " ")]++
	}
	if len(seen) != 1 {
		t.Errorf("the same set of includes was ordered in %d different ways: %v", len(seen), seen)
	}
}
