package syntax

import (
	"fmt"
	"testing"
)

func distinctErrors(src string, n int) map[string]int {
	out := map[string]int{}
	for i := 0; i < n; i++ {
		_, _, _, err := ParseSourceBytes([]byte(src), "demo.mro", nil, false)
		if err == nil {
			out["<nil>"]++
		} else {
			out[err.Error()]++
		}
	}
	return out
}

func TestZZDemoOrder(t *testing.T) {
	cases := map[string]string{
		"isValidSplit": `
stage S(in int x, out int y, src comp "x",)
pipeline P(out map<int> y,) {
    map call S(x = split {"a": "s", "b": "t", "c": "u", "d": "v"},)
    return (y = S.y,)
}`,
		"typedmap": `
stage S(in map<int> x, out int y, src comp "x",)
pipeline P(out int y,) {
    call S(x = {"a": "s", "b": "t", "c": "u", "d": "v"},)
    return (y = S.y,)
}`,
		"structextra": `
struct T(int a,)
stage S(in T x, out int y, src comp "x",)
pipeline P(out int y,) {
    call S(x = {a: 1, b: 2, c: 3, d: 4, e: 5},)
    return (y = S.y,)
}`,
		"depsmap": `
stage S(in map<int> x, out int y, src comp "x",)
pipeline P(out int y,) {
    call S(x = {"a": B.y, "b": C.y, "c": D.y, "d": E.y},)
    return (y = S.y,)
}`,
		"cyclic": `
stage S(in int x, out int y, src comp "x",)
pipeline P(out int y,) {
    call S as A(x = B.y,)
    call S as B(x = A.y,)
    call S as C(x = D.y,)
    call S as D(x = C.y,)
    return (y = A.y,)
}`,
		"dupsplit": `
stage S(in int a, in int b, in int c, out int y, src comp "x",) split (in int a, in int b, in int c,)
`,
	}
	for name, src := range cases {
		d := distinctErrors(src, 300)
		fmt.Printf("CASE %s: %d distinct results\n", name, len(d))
		i := 0
		for k, v := range d {
			if i < 2 {
				fmt.Printf("   x%d: %.300q\n", v, k)
			}
			i++
		}
	}
}
