package core

import (
	"context"
	"os"
	"sort"
	"strings"
	"sync"
	"testing"
	"time"

	"github.com/martian-lang/martian/martian/util"
)

// A job manager which counts the jobs it was asked to execute, and otherwise
// runs them locally.
type findingD17CountingJobManager struct {
	*LocalJobManager
	mu   sync.Mutex
	jobs map[string]int
}

func (self *findingD17CountingJobManager) execJob(shellCmd string, argv []string,
	envs map[string]string, metadata *Metadata, resRequest *JobResources,
	fqname string, shellName string, preflight bool) {
	self.mu.Lock()
	self.jobs[fqname+"."+shellName]++
	self.mu.Unlock()
	self.LocalJobManager.execJob(shellCmd, argv, envs, metadata, resRequest,
		fqname, shellName, preflight)
}

// INNER is mapped over the (runtime-computed) elements of GEN.result, and
// ECHO is mapped over the (runtime-computed) keys of each of those.  The
// first element is an empty map, the others are not.
const findingD17NestedMapSrc = `
stage GEN(
    in  map<string>[] what,
    out map<string>[] result,
    src exec          "stage.py",
)

stage ECHO(
    in  string what,
    out string result,
    src exec   "stage.py",
)

pipeline INNER(
    in  map<string> vals,
    out map<string> results,
)
{
    map call ECHO(
        what = split self.vals,
    )

    return (
        results = ECHO.result,
    )
}

pipeline TOP(
    out map<string>[] results,
)
{
    call GEN(
        what = [
            {
                "k0": "a",
            },
            {
                "k1": "x",
                "k2": "y",
            },
            {
                "k3": "z",
                "k4": "w",
            },
        ],
    )

    map call INNER(
        vals = split GEN.result,
    )

    return (
        results = INNER.results,
    )
}

call TOP()
`

func TestFindingNestedDynamicMapSingleKeyFirst(t *testing.T) {
	util.SetPrintLogger(testLogger{t: t})
	defer util.SetPrintLogger(&devNull)
	rtOpts := DefaultRuntimeOptions()
	rt := Runtime{
		Config: &rtOpts,
	}
	rt.jobConfig = &JobManagerJson{
		JobSettings: &JobManagerSettings{
			ThreadsPerJob: 1,
			MemGBPerJob:   1,
			ExtraVmemGB:   1,
			ThreadEnvs:    []string{"GOMAXPROCS"},
		},
	}
	var err error
	rt.LocalJobManager, err = NewLocalJobManager(4,
		4, 16,
		true,
		false,
		false,
		rt.jobConfig)
	if err != nil {
		t.Fatal(err)
	}
	counter := &findingD17CountingJobManager{
		LocalJobManager: rt.LocalJobManager,
		jobs:            make(map[string]int),
	}
	rt.JobManager = counter
	psdir, err := os.MkdirTemp("", "TestZZDemo")
	if err != nil {
		t.Fatal(err)
	}
	defer os.RemoveAll(psdir)
	pipestance, err := rt.InvokePipeline(findingD17NestedMapSrc,
		"testdata/zz_demo.mro", "zzdemo",
		psdir, []string{"testdata"}, "<none>", nil, nil)
	if err != nil {
		t.Fatal("Invoking pipeline:", err)
	}
	pipestance.LoadMetadata(context.Background())

	deadline := time.Now().Add(2 * time.Minute)
	for {
		flushChannel(rt.LocalJobManager.Done())
		done, hadProgress := loopBody(t, pipestance)
		if done {
			break
		}
		if time.Now().After(deadline) {
			t.Fatal("pipestance did not finish")
		}
		if !hadProgress {
			select {
			case <-time.After(time.Second):
			case <-rt.LocalJobManager.Done():
			}
		}
	}

	counter.mu.Lock()
	defer counter.mu.Unlock()
	echoMains := 0
	var names []string
	for name, count := range counter.jobs {
		names = append(names, name)
		if count != 1 {
			t.Errorf("job %s was submitted %d times", name, count)
		}
		if strings.Contains(name, ".ECHO.") && strings.HasSuffix(name, ".main") {
			echoMains++
		}
	}
	sort.Strings(names)
	t.Log("jobs:\n" + strings.Join(names, "\n"))
	// One fork of ECHO for each of the 4 keys in the second and third maps;
	// none for the first (empty) map.
	if echoMains != 5 {
		t.Errorf("%d ECHO jobs were run, expected 5", echoMains)
	}
	for _, key := range []string{"k0", "k1", "k2", "k3", "k4"} {
		found := 0
		for _, name := range names {
			if strings.Contains(name, ".ECHO.") &&
				strings.Contains(name, "fork_"+key+".") {
				found++
			}
		}
		if found != 1 {
			t.Errorf("%d ECHO jobs were run for key %s, expected 1", found, key)
		}
	}
}
