package syntax

import (
	"strings"
	"testing"
)

// Three nested pipelines, each disabled by its own runtime flag, with two
// sibling stage calls in the innermost one, each of which has its own
// (different) disabled flag.  Each stage must be controlled by its own flag
// (plus the flags of the enclosing pipelines), and not by its sibling's.
const findingD18DisableSrc = `
stage FLAG(
    in  int  x,
    out bool flag,
    src comp "mock",
)

stage FLAGS(
    in  int    x,
    out bool[] flags,
    src comp   "mock",
)

stage WORK(
    in  int x,
    out int y,
    src comp "mock",
)

pipeline P3(
    in  int  x,
    in  bool d,
    in  bool e,
    out int  y1,
    out int  y2,
)
{
    call WORK as S1(
        x = self.x,
    ) using (
        disabled = self.d,
    )

    call WORK as S2(
        x = self.x,
    ) using (
        disabled = self.e,
    )

    return (
        y1 = S1.y,
        y2 = S2.y,
    )
}

pipeline P2(
    in  int  x,
    in  bool c,
    in  bool d,
    in  bool e,
    out P3   r,
)
{
    call P3(
        x = self.x,
        d = self.d,
        e = self.e,
    ) using (
        disabled = self.c,
    )

    return (
        r = P3,
    )
}

pipeline P1(
    in  int  x,
    in  bool b,
    in  bool c,
    in  bool d,
    in  bool e,
    out P2   r,
)
{
    call P2(
        x = self.x,
        c = self.c,
        d = self.d,
        e = self.e,
    ) using (
        disabled = self.b,
    )

    return (
        r = P2,
    )
}

pipeline TOP(
    in  int x,
    out P1[] r,
)
{
    call FLAG as FA(
        x = self.x,
    )

    call FLAGS as FB(
        x = self.x,
    )

    call FLAGS as FC(
        x = self.x,
    )

    call FLAGS as FD(
        x = self.x,
    )

    call FLAGS as FE(
        x = self.x,
    )

    map call P1(
        x = self.x,
        b = split FB.flags,
        c = split FC.flags,
        d = split FD.flags,
        e = split FE.flags,
    ) using (
        disabled = FA.flag,
    )

    return (
        r = P1,
    )
}

call TOP(
    x = 1,
)
`

func findingD18FindNode(node CallGraphNode, suffix string) CallGraphNode {
	if strings.HasSuffix(node.GetFqid(), suffix) {
		return node
	}
	for _, c := range node.GetChildren() {
		if n := findingD18FindNode(c, suffix); n != nil {
			return n
		}
	}
	return nil
}

func findingD18DisableIds(t *testing.T, node CallGraphNode) []string {
	t.Helper()
	var ids []string
	for _, e := range node.Disabled() {
		for {
			if sp, ok := e.(*SplitExp); ok {
				e = sp.Value
				continue
			}
			break
		}
		if r, ok := e.(*RefExp); !ok {
			t.Errorf("%s: unexpected disable expression %s",
				node.GetFqid(), e.GoString())
		} else {
			ids = append(ids, r.Id[strings.LastIndexByte(r.Id, '.')+1:])
		}
	}
	return ids
}

func TestFindingSiblingSplitDisableBindings(t *testing.T) {
	ast := testGood(t, findingD18DisableSrc)
	if ast == nil {
		return
	}
	graph, err := ast.MakeCallGraph("", ast.Call)
	if err != nil {
		t.Fatal(err)
	}
	check := func(name string, expect ...string) {
		t.Helper()
		node := findingD18FindNode(graph, "."+name)
		if node == nil {
			t.Fatal("no node", name)
		}
		ids := findingD18DisableIds(t, node)
		if strings.Join(ids, ",") != strings.Join(expect, ",") {
			t.Errorf("%s is disabled by %v, expected %v",
				node.GetFqid(), ids, expect)
		}
	}
	check("P1", "FA")
	check("P2", "FA", "FB")
	check("P3", "FA", "FB", "FC")
	// S1 must be disabled by FD.flag (its own condition) and never
	// by FE.flag, which belongs to its sibling.
	check("S1", "FA", "FB", "FC", "FD")
	check("S2", "FA", "FB", "FC", "FE")
}
