package core

import (
	"testing"

	"github.com/martian-lang/martian/martian/syntax"
)

// Finding (property C11, recorded, not repaired): two forks of a call nested in two map
// calls, with keys ("a/fork_b", "c") and ("a", "b/fork_c"), have different fork ids and
// directories but the SAME journal name, so job notifications cannot be attributed.
func TestFindingJournalNameCollision(t *testing.T) {
	mk := func(k1, k2 string) ForkId {
		part := func(k string) *ForkSourcePart {
			return &ForkSourcePart{
				Id:    mapKeyFork(k),
				Split: &syntax.SplitExp{Source: &syntax.MapExp{Kind: syntax.KindMap, Value: map[string]syntax.Exp{k: nil, k + "x": nil}}},
			}
		}
		return ForkId{part(k1), part(k2)}
	}
	id1, err1 := mk("a/fork_b", "c").ForkIdString()
	id2, err2 := mk("a", "b/fork_c").ForkIdString()
	if err1 != nil || err2 != nil {
		t.Skip("could not build the fork ids: ", err1, err2)
	}
	if id1 == id2 {
		t.Fatalf("fork ids collide already: %q", id1)
	}
	j1, j2 := encodeJournalName.Replace(id1), encodeJournalName.Replace(id2)
	t.Logf("fork ids %q and %q, journal names %q and %q", id1, id2, j1, j2)
	if j1 == j2 {
		t.Errorf("distinct forks %q and %q share the journal name %q", id1, id2, j1)
	}
}
