package core

// Demonstration for a C11 finding: ForkId.forkId skips a map-key part that follows an
// array part.  A call mapped over an array (2 elements) whose body is mapped over a typed
// map (keys a, b) has four forks; their identifiers (directory names, journal names) must
// be pairwise distinct and name the map key.  With the defect the forks (A=0,B=a) and
// (A=0,B=b) both get the identifier "fork0/fork0".
// Run: cp this file to martian/core/zz_demo_test.go; go test -run TestZZForkIdDemo ./martian/core/

import (
	"testing"

	"github.com/martian-lang/martian/martian/syntax"
)

func TestZZForkIdDemo(t *testing.T) {
	callA, callB := &syntax.CallStm{Id: "A"}, &syntax.CallStm{Id: "B"}
	srcA := &syntax.ArrayExp{Value: []syntax.Exp{&syntax.IntExp{Value: 1}, &syntax.IntExp{Value: 2}}}
	srcB := &syntax.MapExp{Kind: syntax.KindMap, Value: map[string]syntax.Exp{
		"a": &syntax.IntExp{Value: 1}, "b": &syntax.IntExp{Value: 2}}}
	splitA := &syntax.SplitExp{Call: callA, Source: srcA, Value: srcA}
	splitB := &syntax.SplitExp{Call: callB, Source: srcB, Value: srcB}
	seen := map[string]string{}
	for a := 0; a < 2; a++ {
		for _, k := range []string{"a", "b"} {
			id := ForkId{
				&ForkSourcePart{Split: splitA, Id: arrayIndexFork(a)},
				&ForkSourcePart{Split: splitB, Id: mapKeyFork(k)},
			}
			s, err := id.ForkIdString()
			if err != nil {
				t.Fatal(err)
			}
			desc := id.GoString()
			if other, dup := seen[s]; dup {
				t.Errorf("forks %s and %s have the same identifier %q", other, desc, s)
			}
			seen[s] = desc
		}
	}
}
