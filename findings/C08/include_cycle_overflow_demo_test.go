package syntax

// OBSERVATION (not decided by any check of /verif; see DESIGN.md I.3 "observations"):
// two otherwise valid files that include each other make the process die with
// "fatal error: stack overflow" (not a recoverable panic) as soon as the resulting error is
// formatted: the parser appends the second include to SourceFile.IncludedFrom BEFORE it
// checks for a cycle (parser.go, `iSrcFile.IncludedFrom = append(...)` then
// `srcFile.checkIncludes`), so the IncludedFrom graph is cyclic and
// (*SourceLoc).writeTo (errors.go) recurses without end.
//
// Copy to martian/syntax/zz_cycle_test.go and run
//   go test -vet=off -count=1 -run TestZZIncludeCycleOverflow ./martian/syntax/
// (the test binary is killed by the runtime; that is the demonstration).

import (
	"os"
	"path/filepath"
	"testing"
)

func TestZZIncludeCycleOverflow(t *testing.T) {
	dir := t.TempDir()
	a := filepath.Join(dir, "a.mro")
	b := filepath.Join(dir, "b.mro")
	os.WriteFile(a, []byte("@include \"b.mro\"\n\nstage A(\n    in  int x,\n    out int y,\n    src exec \"a\",\n)\n"), 0o644)
	os.WriteFile(b, []byte("@include \"a.mro\"\n\nstage B(\n    in  int x,\n    out int y,\n    src exec \"b\",\n)\n"), 0o644)
	src, _ := os.ReadFile(a)
	_, _, _, err := ParseSourceBytes(src, a, []string{dir}, true)
	if err == nil {
		t.Fatal("an include cycle must be reported")
	}
	_ = err.Error() // stack overflow here on the pinned commit
}
