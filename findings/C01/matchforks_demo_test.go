package core

// Demonstration for the C01 finding D15 (Node.matchForks drops a matching fork).
// A node mapped over two nested calls A (2 elements) and B (3 elements) has 6 forks
// (A0B0 A0B1 A0B2 A1B0 A1B1 A1B2).  A downstream reference which fixes B=0 must be
// resolved against the forks A0B0 and A1B0; with the defect only A1B0 is returned.
// Run: cp this file to martian/core/zz_demo_test.go; go test -run TestZZMatchForksDemo ./martian/core/

import (
	"testing"

	"github.com/martian-lang/martian/martian/syntax"
)

func TestZZMatchForksDemo(t *testing.T) {
	callA, callB := &syntax.CallStm{Id: "A"}, &syntax.CallStm{Id: "B"}
	splitA, splitB := &syntax.SplitExp{Call: callA}, &syntax.SplitExp{Call: callB}
	node := &Node{forkRoots: []*syntax.CallStm{callA, callB}}
	for a := 0; a < 2; a++ {
		for b := 0; b < 3; b++ {
			node.forks = append(node.forks, &Fork{
				index: len(node.forks),
				forkId: ForkId{
					&ForkSourcePart{Split: splitA, Id: arrayIndexFork(a)},
					&ForkSourcePart{Split: splitB, Id: arrayIndexFork(b)},
				},
			})
		}
	}
	query := ForkId{&ForkSourcePart{Split: splitB, Id: arrayIndexFork(0)}}
	var want []int
	for i, f := range node.forks {
		if query.Matches(f.forkId) {
			want = append(want, i)
		}
	}
	var got []int
	for _, f := range node.matchForks(query) {
		got = append(got, f.index)
	}
	if len(got) != len(want) {
		t.Fatalf("matchForks returned forks %v, but the matching forks are %v", got, want)
	}
	for i := range got {
		if got[i] != want[i] {
			t.Fatalf("matchForks returned forks %v, but the matching forks are %v", got, want)
		}
	}
}
