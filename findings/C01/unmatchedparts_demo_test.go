package core

// Demonstration for the C01 finding D15b (ForkId.UnmatchedParts drops an unmatched root).
// upstream roots [X0 (unmatched), M (matched by the fork id), X1 (unmatched), X2 (unmatched)]:
// the parts of upstream the fork id does not determine are X0 X1 X2, in that order;
// with the defect X0 is dropped and the caller (getUnmatchedForkParts) uses X1 as rl[0].
// Run: cp this file to martian/core/zz_demo_test.go; go test -run TestZZUnmatchedPartsDemo ./martian/core/

import (
	"testing"

	"github.com/martian-lang/martian/martian/syntax"
)

func TestZZUnmatchedPartsDemo(t *testing.T) {
	src := `
stage S(in int x, out int y, src comp "s",)
pipeline P(in int[] a, in int[] b, in int[] c, in int[] d, out int[] y,)
{
    map call S as X0(x = split self.a,)
    map call S as M(x = split self.b,)
    map call S as X1(x = split self.c,)
    map call S as X2(x = split self.d,)
    return (y = X0.y,)
}

call P(a = [1], b = [1], c = [1], d = [1],)
`
	_, _, ast, err := syntax.ParseSourceBytes([]byte(src), "demo.mro", nil, false)
	if err != nil {
		t.Fatal(err)
	}
	graph, err := ast.MakeCallGraph("", ast.Call)
	if err != nil {
		t.Fatal(err)
	}
	var upstream syntax.ForkRootList
	var calls []*syntax.CallStm
	for _, child := range graph.GetChildren() {
		st := child.(*syntax.CallGraphStage)
		upstream = append(upstream, st)
		calls = append(calls, st.Call())
	}
	if len(upstream) != 4 {
		t.Fatal("expected 4 stages")
	}
	id := ForkId{&ForkSourcePart{Split: &syntax.SplitExp{Call: calls[1]}, Id: arrayIndexFork(0)}}
	got := id.UnmatchedParts(upstream)
	want := []string{"X0", "X1", "X2"}
	var names []string
	for _, r := range got {
		names = append(names, r.Call().Id)
	}
	if len(names) != len(want) {
		t.Fatalf("UnmatchedParts = %v, want %v", names, want)
	}
	for i := range want {
		if names[i] != want[i] {
			t.Fatalf("UnmatchedParts = %v, want %v", names, want)
		}
	}
}
