package core

import (
	"context"
	"encoding/json"
	"os"
	"path"
	"path/filepath"
	"sort"
	"strings"
	"testing"
	"time"

	"github.com/martian-lang/martian/martian/util"
)

// A pipeline which is itself called in a map call, and which contains a stage
// that is map-called over the (runtime-determined) array output of a sibling
// stage.  Every fork of ECHO must get exactly one int: the element of
// GEN.result, for the matching fork of INNER, at that fork's own index.
//
// The stage code (testdata/stage.py) copies args.what to outs.result.
const findingD19NestedSplitSrc = `
stage GEN(
    in  int[] what,
    out int[] result,
    src exec  "stage.py",
)

stage ECHO(
    in  int  what,
    out int  result,
    src exec "stage.py",
)

pipeline INNER(
    in  int[] vals,
    out int[] results,
)
{
    call GEN(
        what = self.vals,
    )

    map call ECHO(
        what = split GEN.result,
    )

    return (
        results = ECHO.result,
    )
}

pipeline TOP(
    in  int[][] vals,
    out int[][] results,
)
{
    map call INNER(
        vals = split self.vals,
    )

    return (
        results = INNER.results,
    )
}

call TOP(
    vals = [
        [
            11,
            12,
        ],
        [
            21,
            22,
        ],
    ],
)
`

func TestFindingNestedDynamicMergeDuplicates(t *testing.T) {
	rtOpts := DefaultRuntimeOptions()
	rt := Runtime{
		Config: &rtOpts,
	}
	rt.jobConfig = &JobManagerJson{
		JobSettings: &JobManagerSettings{
			ThreadsPerJob: 1,
			MemGBPerJob:   1,
			ExtraVmemGB:   1,
			ThreadEnvs:    []string{"GOMAXPROCS"},
		},
	}
	var err error
	rt.LocalJobManager, err = NewLocalJobManager(4,
		4, 16,
		true,
		false,
		false,
		rt.jobConfig)
	if err != nil {
		t.Fatal(err)
	}
	rt.JobManager = rt.LocalJobManager
	psdir, err := os.MkdirTemp("", "TestZZDemoNestedSplit")
	if err != nil {
		t.Fatal(err)
	}
	defer os.RemoveAll(psdir)
	pipestance, err := rt.InvokePipeline(findingD19NestedSplitSrc,
		"testdata/zz_demo_nested_split.mro", "zzdemo",
		psdir, []string{"testdata"}, "<none>", nil, nil)
	if err != nil {
		t.Fatal("Invoking pipeline:", err)
	}
	pipestance.LoadMetadata(context.Background())

	deadline := time.Now().Add(2 * time.Minute)
	ti := time.NewTimer(0)
	if !ti.Stop() {
		<-ti.C
	}
	failed := false
	for {
		flushChannel(rt.LocalJobManager.Done())
		ctx := context.Background()
		pipestance.RefreshState(ctx)
		state := pipestance.GetState(ctx)
		if state == Complete || state == DisabledState {
			break
		} else if state == Failed {
			_, _, _, log, _, _ := pipestance.GetFatalError()
			t.Errorf("pipestance failed: %s", log)
			failed = true
			break
		}
		if time.Now().After(deadline) {
			t.Fatal("timed out")
		}
		pipestance.CheckHeartbeats(ctx)
		if !pipestance.StepNodes(ctx) {
			ti.Reset(250 * time.Millisecond)
			select {
			case <-ti.C:
			case <-rt.LocalJobManager.Done():
				if !ti.Stop() {
					<-ti.C
				}
			}
		}
	}
	util.SetPrintLogger(&devNull)

	// What did each ECHO fork actually get as its argument?
	// Chunk directories are uniquified, with a symlink from the plain name;
	// Walk does not follow symlinks so each chunk is seen exactly once.
	var argFiles []string
	_ = filepath.Walk(path.Join(psdir, "TOP", "INNER", "ECHO"),
		func(p string, info os.FileInfo, err error) error {
			if err == nil && !info.IsDir() && info.Name() == "_args" &&
				strings.HasPrefix(filepath.Base(filepath.Dir(p)), "chnk") {
				argFiles = append(argFiles, p)
			}
			return nil
		})
	got := make([]string, 0, len(argFiles))
	for _, f := range argFiles {
		b, err := os.ReadFile(f)
		if err != nil {
			t.Error(err)
			continue
		}
		var args map[string]json.RawMessage
		if err := json.Unmarshal(b, &args); err != nil {
			t.Error(err)
			continue
		}
		got = append(got, string(args["what"]))
	}
	sort.Strings(got)
	const expectArgs = "11 12 21 22"
	if s := strings.Join(got, " "); s != expectArgs {
		t.Errorf("ECHO forks received what = %s; expected %s", s, expectArgs)
	}
	_ = failed
	// Finding (property C01, recorded, not repaired): the recorded top-level output.
	b, err := os.ReadFile(path.Join(psdir, "TOP", "fork0", "_outs"))
	if err != nil {
		t.Fatal(err)
	}
	var outs map[string]json.RawMessage
	json.Unmarshal(b, &outs)
	var compact strings.Builder
	for _, c := range string(outs["results"]) {
		if c != ' ' && c != '\n' && c != '\t' {
			compact.WriteRune(c)
		}
	}
	if compact.String() != "[[11,12],[21,22]]" {
		t.Errorf("TOP.results = %s, expected [[11,12],[21,22]]", compact.String())
	}
}
